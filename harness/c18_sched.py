"""
Deterministic step-level scheduler for C18.

The real `DelayedS3Writer` code of odc-geo runs in ordinary Python threads, but exactly one
of them runs at any time: every thread parks at each *yield point* and continues only when
the controller (the harness thread) hands it the next step.  Yield points are the places
where the writer touches shared state, none of which needs an edit of odc-geo:

  rd / wr   read / write of `MultiPartUpload.uploadId` (a data descriptor on a subclass that
            inherits every method of the real class unchanged)
  gc        `distributed.get_client()` as called by the real `_s3._dask_client`
  sget / ssd / sset / sin / sitem   operations on the module dict `_s3._state` (replaced by an
            instrumented dict subclass that starts EMPTY: the process-wide lock does not exist
            yet and is created lazily by the real `_mpu_local_lock`, whose `Lock()` calls build
            scheduler-aware lock objects through the substituted `_s3.Lock`)
  acq / rel enter / exit of a lock object: whatever `_mpu_local_lock()` returned (local
            variant) or the fake `distributed.Lock` (cluster variant)
  vget / vset / vdel   fake `distributed.Variable`
  create / upload / complete   methods of the fake S3 client

A step = the shared operation a thread is parked at plus all thread-local code up to its
next yield point; this is the `step` of the Lean model.
"""
from __future__ import annotations

import pickle
import threading
import time
from typing import Any, Callable, Dict, List, Optional, Tuple


class _Abort(BaseException):
    """raised inside a parked worker thread to unwind it when a run is abandoned"""


def _binsem():
    """binary semaphore, initially 0 (a raw lock: far cheaper than threading.Semaphore;
    every release is matched by exactly one acquire, so one bit is enough)"""
    lk = threading.Lock()
    lk.acquire()
    return lk


class _T:
    __slots__ = ("tid", "sem", "pending", "blocked", "finished", "result", "exc", "thread", "started", "started_running")

    def __init__(self, tid: int):
        self.tid = tid
        self.sem = _binsem()
        self.pending: Optional[str] = None
        self.blocked: Optional[Callable[[], bool]] = None
        self.finished = False
        self.result: Any = None
        self.exc: Optional[BaseException] = None
        self.thread: Optional[threading.Thread] = None
        self.started = False
        self.started_running = False


# context switches only at these operations (plus each thread's first one) in coarse mode;
# reads / writes of uploadId and get_client() then ride along with the preceding operation
COARSE = frozenset({"acq", "rel", "create", "upload", "complete", "vget", "vset", "vdel",
                    "ssd", "sset", "sitem", "sin"})


class Sched:
    TIMEOUT = 10.0

    def __init__(self, coarse: Optional[frozenset] = None):
        self.threads: List[_T] = []
        self.ctrl = _binsem()
        self.tl = threading.local()
        self.aborting = False
        self.labels: List[str] = []
        self.fine: List[int] = []  # the schedule at the model's (fine) step granularity
        self.coarse = coarse
        self.gate: Dict[int, Callable[[], bool]] = {}  # tid -> "must not start yet"

    # ---- worker side
    def yield_point(self, label: str, blocked: Optional[Callable[[], bool]] = None):
        t = getattr(self.tl, "t", None)
        if t is None:  # set-up / inspection code on the controller thread
            return
        if (
            self.coarse is not None
            and t.started
            and label not in self.coarse
            and not (blocked is not None and blocked())
        ):
            # coarse mode: no context switch here, the thread takes this step right away
            self.labels.append(f"{t.tid}:{label}")
            self.fine.append(t.tid)
            return
        t.started = True
        t.pending = label
        t.blocked = blocked
        self.ctrl.release()
        t.sem.acquire()
        t.pending = None
        t.blocked = None
        if self.aborting:
            raise _Abort()

    def hold(self):
        """park without it counting as a step: the thread continues (up to its first shared
        operation) only at the moment the controller gives it its first step"""
        t = getattr(self.tl, "t", None)
        if t is None:
            return
        t.pending = "__hold__"
        self.ctrl.release()
        t.sem.acquire()
        t.pending = None
        if self.aborting:
            raise _Abort()

    def current(self) -> Optional[int]:
        t = getattr(self.tl, "t", None)
        return None if t is None else t.tid

    def _main(self, t: _T, fn: Callable[[], Any]):
        self.tl.t = t
        try:
            # park before the first instruction: the first shared operation is reached
            # by thread-local code only, so it belongs to the first step
            t.result = fn()
        except _Abort:
            pass
        except BaseException as e:  # pylint: disable=broad-except
            t.exc = e
        finally:
            t.finished = True
            self.ctrl.release()

    # ---- controller side
    def _wait(self):
        if not self.ctrl.acquire(timeout=self.TIMEOUT):
            raise RuntimeError("scheduler: worker thread neither yielded nor finished (real blocking call?)")

    def spawn(self, fn: Callable[[], Any]) -> int:
        t = _T(len(self.threads))
        self.threads.append(t)
        t.thread = threading.Thread(target=self._main, args=(t, fn), daemon=True)
        t.thread.start()
        self._wait()  # runs up to its first yield point (or finishes)
        return t.tid

    def is_enabled(self, tid: int) -> bool:
        t = self.threads[tid]
        if t.finished:
            return False
        if t.blocked is not None and t.blocked():
            return False
        if tid in self.gate and not t.started_running and self.gate[tid]():
            return False
        return True

    def enabled(self) -> List[int]:
        return [t.tid for t in self.threads if self.is_enabled(t.tid)]

    def step(self, tid: int):
        """give thread `tid` one step; a blocked or finished thread stutters"""
        t = self.threads[tid]
        if t.pending == "__hold__" and not t.finished:
            t.sem.release()
            self._wait()  # now parked at its first shared operation (or finished)
        self.fine.append(tid)
        if t.finished:
            self.labels.append(f"{tid}:-")
            return
        if t.blocked is not None and t.blocked():
            self.labels.append(f"{tid}:{t.pending}!")
            return
        self.labels.append(f"{tid}:{t.pending}")
        t.started_running = True
        t.sem.release()
        self._wait()

    def abort(self):
        self.aborting = True
        for t in self.threads:
            if not t.finished:
                t.sem.release()
        for t in self.threads:
            if t.thread is not None:
                t.thread.join(timeout=self.TIMEOUT)


# --------------------------------------------------------------------------- fakes
class FakeLock:
    """stands in for `threading.Lock` / `distributed.Lock`; acquire parks while held"""

    def __init__(self, sched: Optional[Sched] = None):
        self.holder: Optional[int] = None

    @property
    def sched(self) -> Sched:
        return CURRENT["sched"]  # lock objects outlive the attempt that created them

    def acquire(self, *a, **kw):
        self.sched.yield_point("acq", blocked=lambda: self.holder is not None)
        assert self.holder is None
        self.holder = self.sched.current()
        if self.holder is None:
            self.holder = -1  # taken by sequential (unscheduled) history code
        return True

    def release(self):
        self.sched.yield_point("rel")
        self.holder = None

    def __enter__(self):
        self.acquire()
        return self

    def __exit__(self, *exc):
        self.release()
        return False


class InstrDict(dict):
    """stands in for the module dict `_s3._state`: every access is a scheduler yield point"""

    def __init__(self, sched: Optional["Sched"] = None):
        super().__init__()

    @property
    def _sched(self) -> "Sched":
        return CURRENT["sched"]

    def get(self, k, d=None):
        self._sched.yield_point("sget")
        return dict.get(self, k, d)

    def setdefault(self, k, d=None):
        self._sched.yield_point("ssd")
        return dict.setdefault(self, k, d)

    def __setitem__(self, k, v):
        self._sched.yield_point("sset")
        dict.__setitem__(self, k, v)

    def __getitem__(self, k):
        self._sched.yield_point("sitem")
        return dict.__getitem__(self, k)

    def __contains__(self, k):
        self._sched.yield_point("sin")
        return dict.__contains__(self, k)

    def pop(self, k, *d):
        self._sched.yield_point("spop")
        return dict.pop(self, k, *d)


class NoSuchUpload(Exception):
    """what S3 answers when a part, a completion or an abort names an upload that is not active"""


class TransientError(Exception):
    """an injected one-off failure of a storage call (throttling, 5xx, connection reset)"""


class FakeS3:
    """The storage service for one object.  Uploads are active, completed or aborted; only active
    ones are listed.  With `strict` the service rejects parts / completions / aborts for uploads
    that are not active (NoSuchUpload), as S3 does; without it dead ids are only recorded."""

    def __init__(self, sched: Optional[Sched] = None):
        self.strict = False
        self.active: List[str] = []
        self.completed: List[str] = []
        self.aborted: List[str] = []
        self.faults: Dict[int, str] = {}  # thread -> "c" (its create call) / "u" (its upload / complete call)
        self.fired: List[int] = []
        self.calls: List[str] = []
        self.ncreate = 0
        self.uploads: List[Tuple[int, str]] = []
        self.ids: List[str] = []
        self.used_ids: List[str] = []

    @property
    def sched(self) -> Sched:
        return CURRENT["sched"]

    def _fault(self, kind: str):
        tid = self.sched.current()
        if tid is not None and self.faults.get(tid) == kind and tid not in self.fired:
            self.fired.append(tid)
            raise TransientError(f"injected failure of thread {tid}'s storage call")

    def _live(self, uid):
        if self.strict and uid not in self.active:
            raise NoSuchUpload(uid)

    def list_multipart_uploads(self, Bucket, Prefix):  # noqa: N803
        self.sched.yield_point("list")
        self.calls.append("list")
        return {"Uploads": [{"UploadId": u, "Key": Prefix} for u in self.active]} if self.active else {}

    def abort_multipart_upload(self, Bucket, Key, UploadId):  # noqa: N803
        self.sched.yield_point("abort")
        self.calls.append(f"abort={UploadId}")
        self._live(UploadId)
        if UploadId in self.active:
            self.active.remove(UploadId)
            self.aborted.append(UploadId)
        return {}

    def create_multipart_upload(self, Bucket, Key, **kw):  # noqa: N803
        self.sched.yield_point("create")
        self._fault("c")
        self.ncreate += 1
        uid = f"id{self.ncreate}"
        self.ids.append(uid)
        self.active.append(uid)
        self.calls.append(f"create={uid}")
        return {"UploadId": uid}

    def upload_part(self, PartNumber, Body, Bucket, Key, UploadId):  # noqa: N803
        self.sched.yield_point("upload")
        self._fault("u")
        self.calls.append(f"upload:{PartNumber}={UploadId or chr(34) * 2}")
        self.used_ids.append(UploadId)
        self._live(UploadId)
        self.uploads.append((PartNumber, UploadId))
        return {"ETag": f"etag{PartNumber}"}

    def complete_multipart_upload(self, Bucket, Key, UploadId, MultipartUpload):  # noqa: N803
        self.sched.yield_point("complete")
        self._fault("u")
        self.calls.append(f"complete={UploadId or chr(34) * 2}")
        self.used_ids.append(UploadId)
        self._live(UploadId)
        if UploadId in self.active:
            self.active.remove(UploadId)
            self.completed.append(UploadId)
        return {"ETag": "final"}


class FakeClient:
    """stands in for `distributed.Client` (truthy, carries nothing)"""


class Cluster:
    """state of the fake cluster: named variables and locks"""

    def __init__(self, sched: Optional[Sched] = None):
        self.vars: Dict[str, Any] = {}
        self.locks: Dict[str, FakeLock] = {}
        self.client = FakeClient()
        self.var_names: List[str] = []


CURRENT: Dict[str, Any] = {"sched": None, "s3": None, "cluster": None, "local": True, "xnames": None, "wof": []}


def _xname(name):
    """Names are how independent worker processes find the shared Variable / Lock.  When the
    harness has had the REAL code compute them in separate interpreters (c18_xproc, distinct hash
    salts), the name a worker's thread asks for here is replaced by the one *that worker's
    process* computed for the same request (identical on an unchanged tree)."""
    xn = CURRENT.get("xnames")
    sched = CURRENT.get("sched")
    tid = sched.current() if sched is not None else None
    if not xn or tid is None or not isinstance(name, str):
        return name
    w = CURRENT["wof"][tid]
    return xn[w % len(xn)].get(name.split("-", 1)[0], name)


class FakeVariable:
    """`distributed.Variable(name=None, client=None)`: get of an unset / deleted variable times out"""

    def __init__(self, name=None, client=None):
        name = _xname(name)
        self.name = name
        cl: Cluster = CURRENT["cluster"]
        if name not in cl.var_names:
            cl.var_names.append(name)

    def set(self, value, timeout=None):
        CURRENT["sched"].yield_point("vset")
        CURRENT["cluster"].vars[self.name] = value

    def get(self, timeout=None):
        CURRENT["sched"].yield_point("vget")
        vs = CURRENT["cluster"].vars
        if self.name not in vs:
            raise TimeoutError()
        return vs[self.name]

    def delete(self):
        CURRENT["sched"].yield_point("vdel")
        CURRENT["cluster"].vars.pop(self.name, None)

    def __reduce__(self):
        return (FakeVariable, (self.name,))


class FakeDLock:
    """`distributed.Lock(name=None, scheduler_rpc=None, loop=None)` as installed (the signature is
    compared with the real class on every run): all objects of one name share one lock; like the
    real one it resolves the current client / worker itself, and an object passed as
    `scheduler_rpc` that cannot register a semaphore fails when the lock is entered."""

    def __init__(self, name=None, scheduler_rpc=None, loop=None):
        cl: Cluster = CURRENT["cluster"]
        self.name = _xname(name)
        self._rpc = scheduler_rpc
        self._lk = cl.locks.setdefault(self.name, FakeLock())

    def _register(self):
        if self._rpc is not None and not hasattr(self._rpc, "semaphore_register"):
            raise AttributeError(f"'{type(self._rpc).__name__}' object has no attribute 'semaphore_register'")

    def acquire(self, *a, **kw):
        self._register()
        return self._lk.acquire()

    def release(self):
        return self._lk.release()

    def __enter__(self):
        self._register()
        self._lk.acquire()
        return self

    def __exit__(self, *exc):
        self._lk.release()
        return False


def fake_signatures_match() -> Dict[str, Any]:
    """the fakes must have the call signatures of the installed library"""
    import inspect

    import distributed

    out = {}
    for nm, real, fake in (("Lock", distributed.Lock, FakeDLock), ("Variable", distributed.Variable, FakeVariable)):
        r = list(inspect.signature(real.__init__).parameters)
        f = list(inspect.signature(fake.__init__).parameters)
        out[nm] = {"real": r, "fake": f, "ok": r == f}
    return out


def fake_get_client(*a, **kw):
    CURRENT["sched"].yield_point("gc")
    if CURRENT["local"]:
        raise ValueError("No global client found and no address provided")
    return CURRENT["cluster"].client


_CLS: Dict[str, Any] = {}


def instr_mpu_class():
    """`MultiPartUpload` with an observable `uploadId` attribute and the fake S3 client;
    every method (`started`, `initiate`, `write_part`, `finalise`, `writer`) is inherited."""
    if "InstrMPU" in _CLS:
        return _CLS["InstrMPU"]
    from odc.geo.cog import _s3

    def _get(self):
        CURRENT["sched"].yield_point("rd")
        return self.__dict__["_uid"]

    def _set(self, v):
        CURRENT["sched"].yield_point("wr")
        self.__dict__["_uid"] = v

    cls = type(
        "InstrMPU",
        (_s3.MultiPartUpload,),
        {"uploadId": property(_get, _set), "s3_client": lambda self: CURRENT["s3"], "__module__": __name__},
    )
    cls.__qualname__ = "InstrMPU"
    globals()["InstrMPU"] = cls  # picklable by reference
    _CLS["InstrMPU"] = cls
    return cls


def clone(obj, how: str):
    """a copy of a writer / sink the way dask, multiprocessing or user code would make one"""
    import copy

    if how == "pickle":
        return pickle.loads(pickle.dumps(obj))
    if how == "deepcopy":
        return copy.deepcopy(obj)
    if how == "copy":
        return copy.copy(obj)
    raise ValueError(how)


KW = {"ContentType": "image/tiff"}


class System:
    """One configuration of the real code, ready to be scheduled.

    kinds   : list of "w<part>" / "f"  (a write of that part / a finalise)
    workers : None → in-process attempt (no dask client exists, one shared writer object);
              list of worker numbers → cluster attempt (a client exists; one copy of the
              writer per worker, made by pickle or deepcopy)
    opts    : bool (gate the finalise behind the writes) or a dict
        gate   : as above
        pre    : HISTORY - phases executed (sequentially, unscheduled) before the attempt in the
                 same process / on the same scheduler; `_s3._state`, the fake cluster's variables
                 and locks and the S3 service persist.  A phase is
                   {"op": "ask", "client": bool}      somebody builds a writer (mpu.writer(kw)) and drops it
                   {"op": "attempt", "client": bool, "parts": [...], "workers": [...], "end": e}
                 an earlier attempt for the same bucket/key, ending in "finalise", "abort"
                 (mpu.cancel()) or "crash" (nothing: task failure / interrupt before finalise)
        copies : how the per-worker copies are made ("pickle" | "deepcopy")
        chain  : thread i may start only when thread i-1 has returned
        after  : {thread: [threads that must have ended first]} (e.g. the retry of a failed step)
        build_without_client : the writer is built while no client exists, then used on the cluster
        xnames : per worker {prefix: name} - the Variable / Lock names that worker's own interpreter
                 process computed (see `_xname`)
        late_clone : per thread None or "pickle" | "copy" | "deepcopy": the thread does not use its
                 worker's writer but a copy of writer 0 taken at the moment the thread starts
    The REAL `_dask_client`, `MultiPartUpload.writer`, `prep_client`, `_shared`, `_build_name`,
    `_mpu_local_lock` run throughout; only distributed.get_client / Variable / Lock, `_s3._state`,
    `_s3.Lock` and the S3 client are substituted.
    """

    def __init__(self, kinds: List[str], workers: Optional[List[int]] = None,
                 coarse: Optional[frozenset] = None, gate_fin: Any = False):
        import distributed
        from odc.geo.cog import _s3

        opts = gate_fin if isinstance(gate_fin, dict) else {"gate": bool(gate_fin)}
        self.opts = opts
        self._s3mod = _s3
        self._dist = distributed
        self.kinds = kinds
        self.workers = workers
        self.sched = Sched(coarse)
        self.s3 = FakeS3()
        self.cluster = Cluster()
        self.state = InstrDict()  # no lock yet: first S3 write of the process
        self.made_locks: List[FakeLock] = []

        def make_lock():
            lk = FakeLock()
            self.made_locks.append(lk)
            return lk

        CURRENT.update(sched=self.sched, s3=self.s3, cluster=self.cluster, local=workers is None,
                       xnames=opts.get("xnames"), wof=list(workers or []))
        self._saved = (
            distributed.get_client,
            distributed.Variable,
            distributed.Lock,
            _s3._state,  # pylint: disable=protected-access
            _s3.Lock,
        )
        distributed.get_client = fake_get_client
        distributed.Variable = FakeVariable
        distributed.Lock = FakeDLock
        _s3._state = self.state  # pylint: disable=protected-access
        _s3.Lock = make_lock

        cls = instr_mpu_class()
        # ---- history (runs on this thread: yield points are no-ops, steps are sequential)
        self.pre_error: Optional[str] = None
        for ph in opts.get("pre", []):
            try:
                self._phase(cls, ph)
            except Exception as e:  # pylint: disable=broad-except
                self.pre_error = f"{type(e).__name__}: {e}"
                break
        self._attempt(cls, kinds, workers, opts)

    def _phase(self, cls, ph):
        if True:  # pylint: disable=using-constant-test
            CURRENT["local"] = not ph["client"]
            m0 = cls("bucket", "some/key.tif")
            w0 = m0.writer(dict(KW))  # the real `_dask_client` decides; `prep_client` if a client exists
            if ph["op"] == "ask":
                return
            if ph["client"]:
                wk = ph.get("workers") or [0] * len(ph["parts"])
                cps = [clone(w0, "pickle") for _ in range(max(wk) + 1)]
            else:
                wk = [0] * len(ph["parts"])
                cps = [w0]
            parts = [cps[w](p, b"x" * p) for p, w in zip(ph["parts"], wk)]
            if ph["end"] == "finalise":
                cps[-1].finalise(parts)
            elif ph["end"] == "abort":
                cps[0].mpu.cancel()

    def _attempt(self, cls, kinds, workers, opts):
        # ---- what the model needs to know about the state the attempt starts in
        self.base_create = self.s3.ncreate
        self.base_calls = len(self.s3.calls)
        self.base_uploads = len(self.s3.uploads)
        self.base_used = len(self.s3.used_ids)
        left = None
        for nm in self.cluster.var_names:
            left = self.cluster.vars.get(nm, None)
        if workers is None:
            self.model_extra = " P" if dict.__contains__(self.state, "mpu_lock") else ""
        else:
            self.model_extra = "" if not opts.get("pre") else (" N" if left is None else " S")

        # ---- the attempt
        # build_without_client: the writer / graph is built before a dask client exists (no `prep_client`,
        # every worker creates the Variable itself), the tasks then run on a cluster
        CURRENT["local"] = workers is None or bool(opts.get("build_without_client"))
        mpu = cls("bucket", "some/key.tif")
        writer = mpu.writer(dict(KW))  # real code: looks for a client itself
        CURRENT["local"] = workers is None
        if workers is None:
            self.writers = [writer]
            wof = [0] * len(kinds)
        else:
            how = opts.get("copies", "pickle")
            self.writers = [clone(writer, how) for _ in range(max(workers) + 1)]
            wof = workers
        self.wof = wof
        late = opts.get("late_clone") or [None] * len(kinds)

        def pick(i):
            if late[i] is None:
                return self.writers[wof[i]]
            self.sched.hold()  # the copy is taken when the thread gets its first step, not at set-up
            wr = clone(self.writers[0], late[i])
            self.writers.append(wr)
            return wr

        # "w1!c" / "f!u": the thread's create call, resp. its upload_part / complete call, raises once
        base = [k.split("!")[0] for k in kinds]
        self.s3.faults = {i: k.split("!")[1] for i, k in enumerate(kinds) if "!" in k}
        for i, k in enumerate(base):
            if k == "f":
                self.sched.spawn(lambda i=i: pick(i).finalise([{"PartNumber": 1, "ETag": "etag1"}]))
            else:
                part = int(k[1:])
                self.sched.spawn(lambda i=i, part=part: pick(i)(part, b"x" * part))
        deps: Dict[int, List[int]] = {}
        if opts.get("gate"):
            # a finalise is given its parts by the writes: it cannot start before they returned
            ws = [i for i, k in enumerate(base) if k != "f"]
            for i, k in enumerate(base):
                if k == "f":
                    deps.setdefault(i, []).extend(ws)
        if opts.get("chain"):
            for i in range(1, len(kinds)):
                deps.setdefault(i, []).append(i - 1)
        for i, d in (opts.get("after") or {}).items():  # a retry starts when the failed attempt has ended
            deps.setdefault(int(i), []).extend(d)
        for i, d in deps.items():
            self.sched.gate[i] = lambda d=d: any(not self.sched.threads[j].finished for j in d)

    def close(self):
        self.sched.abort()
        d, s3 = self._dist, self._s3mod
        d.get_client, d.Variable, d.Lock, s3._state, s3.Lock = self._saved  # pylint: disable=protected-access

    # ---- observation
    def canon(self, uid) -> str:
        """upload ids relative to the attempt: `id<k>` = k-th upload created by the attempt,
        `old<n>` = an id that an earlier attempt of the history obtained"""
        if uid is None:
            return "N"
        if not uid:
            return chr(34) * 2
        if isinstance(uid, str) and uid.startswith("id") and uid[2:].isdigit():
            n = int(uid[2:])
            return f"id{n - self.base_create}" if n > self.base_create else f"old{n}"
        return str(uid)

    def canon_call(self, c: str) -> str:
        head, uid = c.rsplit("=", 1)
        return f"{head}={self.canon(uid if uid != chr(34) * 2 else '')}"

    def outcome(self, tid: int) -> str:
        t = self.sched.threads[tid]
        if not t.finished:
            return "running"
        if t.exc is not None:
            return type(t.exc).__name__
        return "ok"

    def lock_holder(self) -> Optional[int]:
        if self.workers is None:
            # holder of the lock object that is stored in `_state`
            lk = dict.get(self.state, "mpu_lock", None)
            return None if lk is None else lk.holder
        for lk in self.cluster.locks.values():
            if lk.holder is not None:
                return lk.holder
        return None

    def describe(self) -> str:
        """canonical text of the run, same format as the Lean driver"""
        nw = 1 if self.workers is None else max(self.workers) + 1
        uids = [self.canon(w.mpu.__dict__["_uid"]) for w in self.writers[:nw]]
        if self.workers is None:
            ids = "uid=" + uids[0]
        else:
            v = None
            for nm in self.cluster.var_names:
                v = self.cluster.vars.get(nm, None)
            ids = "uid=" + ",".join(uids) + " var=" + self.canon(v)
        outs = ",".join(self.outcome(i) for i in range(len(self.kinds)))
        h = self.lock_holder()
        calls = [self.canon_call(c) for c in self.s3.calls[self.base_calls:]]
        return (
            f"{','.join(self.sched.labels)} ; {','.join(calls)} ; {ids} ; {outs} ; "
            f"lock={'free' if h is None else h}"
        )


SEQ_OPS = ["w", "f", "ca", "cA", "cc", "c1", "c2", "c3"]


def run_seq(ops: List[str]) -> Dict[str, Any]:
    """One shared in-process `MultiPartUpload` + writer over time: writes, finalise and every spelling
    of `cancel` in sequence (no concurrency), against the strict storage service."""
    import distributed
    from odc.geo.cog import _s3

    s3 = FakeS3()
    s3.strict = True
    CURRENT.update(sched=Sched(), s3=s3, cluster=Cluster(), local=True, xnames=None, wof=[])
    saved = (distributed.get_client, distributed.Variable, distributed.Lock, _s3._state, _s3.Lock)  # pylint: disable=protected-access
    distributed.get_client, distributed.Variable, distributed.Lock = fake_get_client, FakeVariable, FakeDLock
    _s3._state, _s3.Lock = InstrDict(), FakeLock  # pylint: disable=protected-access
    steps = []
    try:
        mpu = instr_mpu_class()("bucket", "some/key.tif")
        writer = mpu.writer(dict(KW))
        parts: List[Any] = []
        part = 0
        for op in ops:
            n0, before = len(s3.calls), mpu.__dict__["_uid"]
            try:
                if op == "w":
                    part += 1
                    parts.append(writer(part, b"x" * part))
                elif op == "f":
                    writer.finalise(parts or [{"PartNumber": 1, "ETag": "etag1"}])
                    parts = []
                else:
                    arg = {"ca": "all", "cA": ":ALL:", "cc": ""}.get(op, "id" + op[1:])
                    mpu.cancel(arg)
                    parts = []
                res = "ok"
            except NoSuchUpload:
                res = "NoSuchUpload"
            except Exception as e:  # pylint: disable=broad-except
                res = type(e).__name__
            steps.append({"op": op, "res": res, "before": before, "after": mpu.__dict__["_uid"],
                          "calls": s3.calls[n0:], "active": list(s3.active)})
        q = chr(34) * 2
        srt = lambda l: "[" + ",".join(sorted(l, key=lambda u: int(u[2:]))) + "]"  # noqa: E731
        text = (f"{','.join(st['res'] for st in steps)} ; {','.join(s3.calls)} ; uid={mpu.__dict__['_uid'] or q} ; "
                f"active={srt(s3.active)} ; completed={srt(s3.completed)} ; aborted={srt(s3.aborted)}")
    finally:
        distributed.get_client, distributed.Variable, distributed.Lock, _s3._state, _s3.Lock = saved  # pylint: disable=protected-access
    return {"steps": steps, "text": text}


def run_schedule(kinds, workers, prefix: List[int], complete: bool = True,
                 coarse: Optional[frozenset] = None, gate_fin: bool = False):
    """Run the real code under `prefix` (one entry per scheduler step), then (if
    `complete`) continue with the lowest enabled thread until no thread is enabled.
    Returns (system-after-run, choices), choices[i] = (enabled threads before step i,
    index chosen or -1 for a stutter).  `system.sched.fine` is the schedule at the model's
    step granularity (identical to the steps taken unless `coarse`)."""
    sysm = System(kinds, workers, coarse, gate_fin)
    choices: List[Tuple[List[int], int]] = []
    try:
        i = 0
        while True:
            en = sysm.sched.enabled()
            if i < len(prefix):
                tid = prefix[i]
            elif complete and en:
                tid = en[0]
            else:
                break
            choices.append((en, en.index(tid) if tid in en else -1))
            sysm.sched.step(tid)
            i += 1
        sysm.deadlock = bool(complete and any(not t.finished for t in sysm.sched.threads))
    finally:
        sysm.close()
    return sysm, choices


def all_schedules(kinds, workers, coarse: Optional[frozenset] = None, root: Optional[List[int]] = None,
                  lo: int = 0, hi: Optional[int] = None, limit: Optional[int] = None, gate_fin: bool = False,
                  deadline: Optional[float] = None):
    """Stateless depth-first enumeration of the maximal schedules of the real code (only
    enabled threads are scheduled) that start with `root`; alternatives are explored at
    step positions lo <= k < hi only.  Yields (choices, system)."""
    prefix: List[int] = list(root or [])
    n = 0
    while True:
        sysm, ch = run_schedule(kinds, workers, prefix, True, coarse, gate_fin)
        yield [c[0][c[1]] for c in ch], sysm
        n += 1
        if limit is not None and n >= limit:
            return
        if deadline is not None and time.time() > deadline:
            return
        k = min(len(ch), hi if hi is not None else len(ch)) - 1
        while k >= lo and ch[k][1] + 1 >= len(ch[k][0]):
            k -= 1
        if k < lo:
            return
        prefix = [c[0][c[1]] for c in ch[:k]] + [ch[k][0][ch[k][1] + 1]]


def observe(sysm: System) -> Dict[str, Any]:
    """everything the harness needs from a finished run, as plain data (relative to the attempt)"""
    bc = sysm.base_create
    return {
        "fine": list(sysm.sched.fine),
        "labels": list(sysm.sched.labels),
        "calls": [sysm.canon_call(c) for c in sysm.s3.calls[sysm.base_calls:]],
        "text": sysm.describe(),
        "extra": sysm.model_extra,
        "pre_error": sysm.pre_error,
        "outcomes": [sysm.outcome(i) for i in range(len(sysm.kinds))],
        "results": [repr(t.result) for t in sysm.sched.threads],
        "ncreate": sysm.s3.ncreate - bc,
        "ids": [sysm.canon(u) for u in sysm.s3.ids[bc:]],
        "used_ids": [sysm.canon(u) for u in sysm.s3.used_ids[sysm.base_used:]],
        "uploads": [(p, sysm.canon(u)) for p, u in sysm.s3.uploads[sysm.base_uploads:]],
        "deadlock": bool(getattr(sysm, "deadlock", False)),
        "lock": sysm.lock_holder(),
    }


SUBTREE_LIMIT = 400000  # safety valves: a changed protocol may have vastly more interleavings


def _subtree(args):
    kinds, workers, coarse, root, depth, gate, deadline = args
    out = []
    for _, sm in all_schedules(kinds, workers, coarse, root=root, lo=depth, gate_fin=gate,
                               limit=SUBTREE_LIMIT, deadline=deadline):
        out.append(observe(sm))
    cut = len(out) >= SUBTREE_LIMIT or (deadline is not None and time.time() > deadline)
    return out, cut


def enumerate_all(kinds, workers, coarse: Optional[frozenset] = None, procs: int = 1, depth: int = 5,
                  gate_fin: bool = False, budget_s: Optional[float] = None, pool=None):
    """All maximal schedules, enumerated in `procs` processes (sub-trees below the distinct
    prefixes of length `depth`); result order is deterministic.  Returns (observations,
    truncated) - truncated iff the wall-clock budget (only ever reached when the protocol
    has far more interleavings than the unchanged one) or SUBTREE_LIMIT cut a sub-tree."""
    deadline = None if budget_s is None else time.time() + budget_s
    roots = []
    for ch, _ in all_schedules(kinds, workers, coarse, hi=depth, gate_fin=gate_fin, deadline=deadline):
        roots.append(ch[:depth])
    tasks = [(kinds, workers, coarse, r, depth, gate_fin, deadline) for r in roots]
    if pool is not None:
        parts = pool.map(_subtree, tasks, chunksize=1)
    elif procs <= 1:
        parts = [_subtree(t) for t in tasks]
    else:
        with make_pool(min(procs, len(roots))) as pl:
            parts = pl.map(_subtree, tasks, chunksize=1)
    return [o for part, _ in parts for o in part], any(cut for _, cut in parts)


def make_pool(procs: int):
    import multiprocessing as mp

    return mp.get_context("fork").Pool(procs)


def run_random(kinds, workers, seed: int, stutter_p: float = 0.15, gate_fin: bool = False):
    """one complete random schedule at fine granularity; with probability `stutter_p` a step
    is offered to an arbitrary (possibly blocked or finished) thread"""
    import random

    rng = random.Random(seed)
    sysm = System(kinds, workers, None, gate_fin)
    try:
        n = len(kinds)
        while True:
            en = sysm.sched.enabled()
            if not en:
                break
            if rng.random() < stutter_p:
                tid = rng.randrange(n)
                if tid in sysm.sched.gate and tid not in en:
                    continue  # a gated thread has not been submitted yet
            else:
                tid = rng.choice(en)
            sysm.sched.step(tid)
        sysm.deadlock = any(not t.finished for t in sysm.sched.threads)
    finally:
        sysm.close()
    return sysm


def _random_batch(args):
    kinds, workers, seeds, p, gate = args
    return [observe(run_random(kinds, workers, sd, p, gate)) for sd in seeds]


def random_runs(kinds, workers, seeds: List[int], procs: int = 1, stutter_p: float = 0.15, gate_fin: bool = False,
                pool=None):
    if (procs <= 1 and pool is None) or len(seeds) < 64:
        return _random_batch((kinds, workers, seeds, stutter_p, gate_fin))
    k = max(1, len(seeds) // (procs * 4))
    chunks = [seeds[i:i + k] for i in range(0, len(seeds), k)]
    tasks = [(kinds, workers, c, stutter_p, gate_fin) for c in chunks]
    if pool is not None:
        parts = pool.map(_random_batch, tasks, chunksize=1)
    else:
        with make_pool(procs) as pl:
            parts = pl.map(_random_batch, tasks, chunksize=1)
    return [o for part in parts for o in part]
