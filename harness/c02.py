"""C02 — GeoBox views agree with its pixel-to-world mapping."""
from __future__ import annotations

import math
from fractions import Fraction as F
from math import isqrt

import numpy as np

from .common import Run, frac_s, list_s, opt_s, run_driver

META = {
    "claimed": True,
    "text": "Lean 4 theorems (all shapes, all invertible rational affines incl. mirrored / rotated / sheared, all "
    "operation parameters) about a hand model of the GeoBox views: pix2wld/wld2pix are mutual inverses; footprint "
    "vertices and bounding box are the images / hull of the pixel-rectangle corners and contain the image of every "
    "point of the rectangle; coordinate labels are pixel centres; resolution (axis-aligned and decomposed) ; a pixel "
    "contract + shape law + CRS preservation for crop/index (negative, int, open), pad, pad_wh, crop/expand, "
    "translate_pix, left/right/top/bottom, flipx/flipy, rotate, centre pixel, zoom_out, zoom_to (shape / number / "
    "resolution), scaled_down_geobox, buffered, pixel- and world-side affine composition; covering laws where "
    "documented; GCP geoboxes inherit every contract through an arbitrary pixel->world function.  The model is tied "
    "to /repo on every run by an exact correspondence (dyadic affines, exhaustive small index / zoom / align domains, "
    "random parameters) and an independent Fraction oracle that also judges arbitrary doubles (float stream).  Growth "
    "round 2 (Model/C02Glue, Props/C02Glue, Props/C02C20, harness/c02_glue.py): the glue between that core and the public "
    "entry points is modelled, proved and tied — shape_ / res_ / int() for every spelling of a shape or resolution "
    "(tuple, list, XY, Shape2d, Index2d, numpy scalars, bool, bare number, Resolution) at GeoBox(), crop, expand, "
    "zoom_to, GCPGeoBox(); the dispatch of zoom_to on (shape, resolution=) with all error branches and end-to-end "
    "contracts from the arguments as spelled (same footprint / longest side / covers the bounding box = C08 from_bbox); "
    "the dispatch of gbox[...] on int / slice / tuple / list / BoundingBox / Geometry / GeoBox incl. stepped slices "
    "(never silently step 1), wrong tuple lengths, CRS-less parent, exhaustively over a pool of 16 entries, and the tie to "
    "numpy's selection; enclosing / project argument handling (project is its own inverse); is_empty, aspect, the two "
    "intermediates of footprint() (buffer distance never erodes, densification step) observed by interposition; "
    "GCPGeoBox.pix2wld / wld2pix / extent / boundingbox / map_bounds / approx / resolution / to_crs composed with an "
    "exactly affine mapping (boundingbox contains the footprint for every pixel->world function; approx of exact "
    "control points = B o A via C20's affine_from_pts_exact); scaled_down_geobox = zoom_out on non-empty geoboxes.  "
    "Second increment: regions given in ANOTHER CRS (index, enclosing, project) are tied exactly — power-of-two parent grids "
    "anchored at the CRS origin, the model receives pyproj's vertex images as a table (table_reproj_agrees) — with an "
    "independent exact window oracle; rotate() composes by angle addition for all rotation entries and the exact "
    "quarter turns of Affine.rotation form Z/4 (rotate_compose, rotate_quarter_add; k = -8..8 exhaustively, "
    "rotate(a).rotate(b) vs rotate(a+b) on floats); crop undoes pad, pad undoes an inner crop, zoom_to(shape) = "
    "zoom_out(k) when the shape divides and back again, gbox*T / T*gbox associate, commute with each other and with "
    "views (proved and evaluated on the real objects); coordinates keys / order / resolutions by kind of CRS and the "
    "geographic_extent dispatch (kind decided by pyproj independently); qr2sample contract (count, inside the padded "
    "pixel rectangle, fixed sequence under offset, corners with edges) as an oracle.  Final increment (Model/C02Seq, "
    "Props/C02Seq): qr2sample modelled over C20's quasiRandomR2 and compared bit-exactly through C14's fl64 (inside the "
    "padded rectangle, count, offset law for every rounding); the structure of footprint / geographic_extent with "
    "shapely buffer, densification and reprojection as parameters (buffer first, step from the un-buffered bounding box, "
    "same-CRS shortcut, target CRS) tied through the interposed plan; units of coordinates by kind of CRS; gbox[obj] for "
    "non-index objects with its own error type (TypeError / ValueError / AttributeError from len / Sequence / entries); "
    "links C02∘C04 (GeoboxTiles tile = public index form), C02∘C14 (views of grid tiles), flip∘crop, zoom_out∘pad.",
    "note": "Trusted: Lean kernel + {propext, Classical.choice, Quot.sound}; IEEE rounding is not modelled (theorems "
    "over exact rationals, doubles sampled with 1e-9 relative slack, shapes exact); square roots of the "
    "rotated-resolution decomposition enter as witnesses (numpy.linalg trusted); the GCP polynomial fit is an abstract "
    "function pair (only its model selection fitKind is modelled; exact reproduction of in-family data is C20's "
    "poly_fit_exact_*; fit quality otherwise sampled against exact ground truth).  Growth round 2: reprojection between different CRSs is an "
    "abstract function parameter of getitem / enclosingArg / project / gcpToCrs (theorems hold for every such function; "
    "the driver refuses other-CRS lines, pyproj is sampled by the oracle); the GCP composition is compared exactly with "
    "the mapping's cached p2w / w2p / approx pinned to an exact affine pair (the least-squares fit itself is C20); "
    "gcp_approx_of_exact_gcps keeps C20's hypothesis that LAPACK returns a minimiser; gcp_to_crs_consistent needs the "
    "view's affine to be the identity or not within 1e-5 of it (Affine.is_identity): the excluded case is the proved "
    "counterexample gcp_to_crs_near_identity_cex, replayed on the real code and reported as finding candidate "
    "gcp-to-crs-near-identity-view (counted until registered); numpy.float64(0) as zoom_to target divides to inf "
    "instead of raising (outside the model, excluded from the generator).  NOT mirrored in the Lean model "
    "(inventory of the anchor files): geobox.py - from_bbox non-tight / from_geopolygon / _norm_anchor (C08), "
    "the shapely buffer and the reprojection inside footprint(buffer, other crs), geographic_extent / map_bounds WITH "
    "reprojection (only the dispatch on the kind of CRS is modelled), qr2sample arithmetic (float32 / irrational constants: "
    "oracle only), Affine.rotation for angles other than quarter turns (cos / sin are inputs), index / region objects that are neither numbers, "
    "slices, sequences of those nor BoundingBox / Geometry / GeoBox (TypeError / AttributeError: index-kind table only), "
    "empty geometries on a singular geobox, snap_to, "
    "overlap_roi, |, &, geobox_union/intersection_conservative, pixel_translation, bounding_box_in_pixel_domain (C16), "
    "to_crs (C11), __eq__/__hash__/__dask_tokenize__ (C19), svg/grid_lines/outline/explore/_ui, compat, from_rio, "
    "GeoboxTiles (C04/C12); geom.py - BoundingBox.buffered/transform/to_crs/boundary/qr2sample/aoi, shapely polygon "
    "construction behind polygon_from_transform (vertex list only); gcp.py - GCPMapping numerics (Poly2d.fit "
    "back-ends, affine_from_pts: abstract P, Q, B), GCPGeoBox.from_rio / map_bounds with reprojection, "
    "__eq__/__hash__, GCPMapping.__init__ point-set normalisation; types.py - xy_/yx_/ixy_/iyx_ constructors themselves (their "
    "results are the XY inputs of shapeNorm), Shape2d/XY arithmetic; math.py - decompose_rws factors R and W (only the scale diagonal), snap_affine, snap_scale, "
    "split_translation, Poly2d evaluation, norm_xy, quasi_random_r2 (C20 or unmodelled); affine - shear, the identity "
    "shortcut of itransform; boundary()'s float32 linspace rounding.",
    "technique": "Lean 4 proof over hand model + differential correspondence with real code",
    "design_ref": "DESIGN.md §4 C02",
}

CRS_TAGS = {0: None, 1: "EPSG:4326", 2: "EPSG:3857", 3: "EPSG:32633"}


def _import():
    from affine import Affine, TransformNotInvertibleError
    from odc.geo import geobox as GB
    from odc.geo import gcp as GCP

    return GB, GCP, Affine, TransformNotInvertibleError


# ------------------------------------------------------------------ encoding
def enc_aff(A) -> str:
    return ";".join(frac_s(v) for v in tuple(A)[:6])


def crs_tag(crs) -> int:
    if crs is None:
        return 0
    s = str(crs).upper()
    for k, v in CRS_TAGS.items():
        if v is not None and v == s:
            return k
    return 99


def aff_of(g):
    """pixel-side affine of a GeoBox / GCPGeoBox: the public accessor where the class has one, else the private slot,
    else the last six entries of the (public) dask token"""
    A = getattr(g, "affine", None)
    if A is None:
        A = getattr(g, "_affine", None)
    if A is None:
        from affine import Affine
        A = Affine(*[float(v) for v in g.__dask_tokenize__()[-6:]])
    return A


def mapping_of(g, default=None):
    return getattr(g, "_mapping", default)


def mapping_points(mapping):
    """(pix, wld) control points of a GCPMapping as lists of (x, y): public points() first, private arrays as fallback"""
    try:
        pix, wld = mapping.points()
        return [tuple(map(float, p.coords[0])) for p in pix.geoms], [tuple(map(float, p.coords[0])) for p in wld.geoms]
    except Exception:  # pylint: disable=broad-except
        return [tuple(map(float, p)) for p in getattr(mapping, "_pix")], [tuple(map(float, p)) for p in getattr(mapping, "_wld")]


def enc_gb(g) -> str:
    ny, nx = g.shape
    A = aff_of(g)
    return f"{int(ny)} {int(nx)} {enc_aff(A)} {crs_tag(g.crs)}"


def enc_idx(s) -> str:
    if isinstance(s, int):
        return f"i:{int(s)}"  # bool is an int
    return f"s:{opt_s(s.start)}:{opt_s(s.stop)}"


# ------------------------------------------------------------------ exact rational affine (oracle side)
def fa(A):
    return tuple(F(v) for v in tuple(A)[:6])


def fa_mul(A, B):
    a, b, c, d, e, f = A
    oa, ob, oc, od, oe, of = B
    return (a * oa + b * od, a * ob + b * oe, a * oc + b * of + c, d * oa + e * od, d * ob + e * oe, d * oc + e * of + f)


def fa_apply(A, p):
    a, b, c, d, e, f = A
    x, y = p
    return (a * x + b * y + c, d * x + e * y + f)


def fa_tr(tx, ty):
    return (F(1), F(0), F(tx), F(0), F(1), F(ty))


def fa_sc(sx, sy):
    return (F(sx), F(0), F(0), F(0), F(sy), F(0))


FA_ID = fa_tr(0, 0)


def frac_sqrt(q: F):
    """exact *dyadic* square root of a non-negative rational or None (so that the double sqrt is exact)"""
    if q < 0:
        return None
    n, d = q.numerator, q.denominator
    rn, rd = isqrt(n), isqrt(d)
    if rn * rn == n and rd * rd == d and rd & (rd - 1) == 0:
        return F(rn, rd)
    return None


def chol_witness(A):
    """(n, m): the two square roots of decompose_rws for affine A (six Fractions) when LAPACK computes them without
    rounding — both dyadic, and the off-diagonal Cholesky entry w = (ab+de)/n is either 0 or n is a power of two
    (dpotrf scales by the reciprocal 1/n, which is exact only then); (None, None) otherwise"""
    n = frac_sqrt(A[0] ** 2 + A[3] ** 2)
    if not n:
        return None, None
    w = (A[0] * A[1] + A[3] * A[4]) / n
    if w != 0 and (n.numerator & (n.numerator - 1)) != 0:
        return n, None
    return n, frac_sqrt(A[1] ** 2 + A[4] ** 2 - w * w)


# ------------------------------------------------------------------ generators
def near_delta(rng) -> F:
    """signed offsets that sit just beside a decision boundary (integer, half, tolerance)"""
    d = rng.choice([F(0), F(1, 10**6), F(1, 10**9), F(1, 10**10), F(1, 10**11), F(2) ** -33, F(2) ** -40, F(1, 10**8)])
    return d * rng.choice([-1, 1])


HUGE = [2**31 - 1, 2**31, 2**31 + 1, 2**32 + 5, 2**53 - 3, 2**53 - 1, 2**53, 2**53 + 1, 2**53 + 3, 2**63 - 1, 2**63,
        2**64, 2**64 + 1, 2**100, 2**100 + 7, 10**30 + 1]


def pow2(rng, lo, hi):
    return 2.0 ** rng.randint(lo, hi)


def gen_shape(rng, nmax=64, allow_zero=False):
    r = rng.random()
    if r < 0.12:
        return (1, rng.randint(1, nmax))
    if r < 0.24:
        return (rng.randint(1, nmax), 1)
    if r < 0.27:
        return (1, 1)
    if allow_zero and r < 0.29:
        return rng.choice([(0, 0), (0, rng.randint(1, 9)), (rng.randint(1, 9), 0)])
    if r < 0.6:
        return (rng.randint(1, 9), rng.randint(1, 9))
    return (rng.randint(1, nmax), rng.randint(1, nmax))


def gen_linear_exact(rng):
    """2x2 part with few significant bits: (a, b, d, e), class name"""
    sx = rng.choice([-1, 1]) * pow2(rng, -8, 8)
    sy = rng.choice([-1, 1, -1]) * pow2(rng, -8, 8)
    r = rng.random()
    if r < 0.35:
        return (sx, 0.0, 0.0, sy), "st"
    if r < 0.45:
        # shear below the 1e-10 tolerance of is_affine_st; narrow exponent range keeps every product exact
        sx = rng.choice([-1, 1]) * pow2(rng, -2, 2)
        sy = rng.choice([-1, 1]) * pow2(rng, -2, 2)
        return (sx, 2.0**-36 * rng.choice([0, 1, -1]), 2.0**-36 * rng.choice([0, 1, -1]), sy), "st-tiny-shear"
    if r < 0.6:
        return (0.0, sy, sx, 0.0), "rot90"
    if r < 0.85:
        c, s = rng.choice([(3, 4), (4, 3), (-3, 4), (3, -4), (5, 12), (12, -5), (-4, -3), (8, 15)])
        # R * diag(sx, sy): columns scaled
        return (c * sx, -s * sy, s * sx, c * sy), "pyth"
    t = rng.choice([-1, 1]) * rng.randint(1, 7) * pow2(rng, -3, 1)
    if rng.random() < 0.5:
        return (sx, t * sy, 0.0, sy), "shear"
    return (sx, 0.0, t * sx, sy), "shear"


def gen_translation_exact(rng):
    k = rng.choice([0, 4, 10, 20])
    return (rng.randint(-(2**k), 2**k) + rng.randint(0, 63) / 64.0, rng.randint(-(2**k), 2**k) + rng.randint(0, 15) / 16.0)


def gen_gbox_exact(rng, GB, Affine, nmax=64, allow_zero=False):
    (a, b, d, e), cls = gen_linear_exact(rng)
    c, f = gen_translation_exact(rng)
    if cls == "st-tiny-shear":
        c, f = rng.randint(-64, 64) / 64.0, rng.randint(-16, 16) / 16.0
    tag = rng.choice([0, 1, 2, 3])
    shape = gen_shape(rng, nmax, allow_zero)
    return GB.GeoBox(shape, Affine(a, b, c, d, e, f), CRS_TAGS[tag]), cls


def gen_gbox_float(rng, GB, Affine):
    res = rng.choice([30.0, 10.0, 0.00025, 1 / 3, 10 / 3, 0.1, 25.0, 1e-5 * rng.uniform(1, 9), rng.uniform(0.01, 1000)])
    asp = rng.choice([1.0, 1.0, rng.uniform(0.3, 3)])
    sx = rng.choice([-1, 1, 1]) * res
    sy = rng.choice([-1, -1, 1]) * res * asp
    kind = rng.choice(["st", "st", "rot", "rot", "shear", "rot90"])
    if kind == "st":
        L = Affine.scale(sx, sy)
    elif kind == "rot":
        L = Affine.rotation(rng.uniform(-180, 180)) * Affine.scale(sx, sy)
    elif kind == "rot90":
        L = Affine.rotation(rng.choice([90, 180, 270])) * Affine.scale(sx, sy)
    else:
        L = Affine.shear(rng.uniform(-40, 40), rng.uniform(-20, 20)) * Affine.scale(sx, sy)
    t = rng.choice(["utm", "lonlat", "zero", "big"])
    if t == "utm":
        tx, ty = rng.uniform(1e5, 9e5), rng.uniform(-1e7, 1e7)
    elif t == "lonlat":
        tx, ty = rng.uniform(-180, 180), rng.uniform(-90, 90)
    elif t == "zero":
        tx, ty = 0.0, 0.0
    else:
        tx, ty = rng.uniform(-2e7, 2e7), rng.uniform(-2e7, 2e7)
    A = Affine.translation(tx, ty) * L
    shape = gen_shape(rng, rng.choice([64, 64, 5000]))
    if rng.random() < 0.04:
        # extreme but non-overflowing magnitudes (det and every product stay finite and non-zero)
        u = rng.randint(-140, 140)
        v = rng.randint(-150, 150)
        A = Affine.translation(rng.choice([-1, 1]) * 10.0**v, rng.choice([-1, 1, 0]) * 10.0**v) * \
            Affine.scale(rng.choice([-1, 1]) * 10.0**u, rng.choice([-1, 1]) * 10.0**u * rng.uniform(0.5, 2))
        kind = "extreme"
    return GB.GeoBox(shape, A, CRS_TAGS[rng.choice([0, 1, 2, 3])]), kind


# ------------------------------------------------------------------ oracle helpers
class Ctx:
    def __init__(self, R: Run, exact: bool):
        self.R = R
        self.exact = exact

    def close(self, got, want, scale) -> bool:
        got, want = F(got), F(want)
        if got == want:
            return True
        # exact stream: inputs are dyadic and the code's arithmetic is exact by construction; 1e-12 only absorbs
        # the rare inexact product on derived geoboxes.  float stream: documented slack 1e-9 * |coordinate|
        rel = F(1, 10**12) if self.exact else F(1, 10**9)
        return abs(got - want) <= rel * max(abs(F(scale)), abs(want))

    def pt_close(self, got, want, scale) -> bool:
        return self.close(got[0], want[0], scale) and self.close(got[1], want[1], scale)


def world_scale(A, shape):
    """magnitude used for the documented slack: |coordinate| incl. the pixel extent"""
    ny, nx = shape
    a, b, c, d, e, f = A
    return max(abs(c) + (abs(a) + abs(b)) * max(abs(nx), abs(ny), 1), abs(f) + (abs(d) + abs(e)) * max(abs(nx), abs(ny), 1))


def sample_pix(rng, shape):
    ny, nx = shape
    return [(F(0), F(0)), (F(nx), F(0)), (F(0), F(ny)), (F(nx), F(ny)), (F(nx) / 2, F(ny) / 2),
            (F(rng.randint(-8, 8 * max(nx, 1)), 8), F(rng.randint(-8, 8 * max(ny, 1)), 8))]


def case_of(op, g, args):
    return {"op": op, "gbox": enc_gb(g), "args": args}


def check_contract(cx: Ctx, op: str, g, g2, args, T=None, W=None, shape=None):
    """g2 = op(g).  Pixel contract: pix2wld(g2)(p) = W(pix2wld(g)(T p)) ; shape law ; crs."""
    R = cx.R
    case = case_of(op, g, args)
    R.oracle(g2.crs == g.crs and crs_tag(g2.crs) == crs_tag(g.crs), f"{op}-crs-changed", case,
             f"{op}: crs {g.crs} -> {g2.crs}", trivial=True)
    if shape is not None:
        R.oracle(tuple(map(int, g2.shape)) == tuple(shape), f"{op}-shape", case,
                 f"{op}: shape {tuple(g2.shape)} but the contract gives {tuple(shape)}")
    A, A2 = fa(aff_of(g)), fa(aff_of(g2))
    T = FA_ID if T is None else T
    E = fa_mul(A, T)
    if W is not None:
        E = fa_mul(W, E)
    sc = world_scale(E, g2.shape)
    ok = True
    bad = None
    for p in sample_pix(R.rng, tuple(map(int, g2.shape))):
        got, want = fa_apply(A2, p), fa_apply(E, p)
        if not cx.pt_close(got, want, sc):
            ok = False
            bad = (p, got, want)
            break
    R.oracle(ok, f"{op}-pixel-contract", case,
             "" if ok else f"{op}: pixel {tuple(map(float, bad[0]))} of the view lies at {tuple(map(float, bad[1]))}, "
             f"contract says {tuple(map(float, bad[2]))}")


def check_base_views(cx: Ctx, g, TNI, tag="base"):
    try:
        _check_base_views(cx, g, TNI, tag)
    except Exception as e:  # pylint: disable=broad-except
        cx.R.oracle(False, "views-raised", {"op": "views", "gbox": enc_gb(g), "args": []}, f"{type(e).__name__}: {e}")


def _check_base_views(cx: Ctx, g, TNI, tag="base"):
    """inverse, extent, bounding box, coordinates, resolution of one geobox (real outputs vs Fractions)."""
    R = cx.R
    A = fa(aff_of(g))
    ny, nx = map(int, g.shape)
    case = {"op": "views", "gbox": enc_gb(g), "args": []}
    sc = world_scale(A, (ny, nx))
    det = A[0] * A[4] - A[1] * A[3]
    # --- mutual inverses
    if det != 0:
        pix_sc = max(nx, ny, 1)
        cxs = Ctx(R, False)  # the inverse is never exact (1/det): always judged with the documented slack
        for p in sample_pix(R.rng, (ny, nx))[:6]:
            w = g.pix2wld(float(p[0]), float(p[1]))
            okw = cx.pt_close(w, fa_apply(A, (F(float(p[0])), F(float(p[1])))), sc)
            R.oracle(okw, "pix2wld-not-affine-image", case, f"pix2wld{tuple(map(float, p))} = {w}")
            q = g.wld2pix(*w)
            # conditioning: a world error of 1e-9*|coordinate| is |coordinate| / (smallest pixel stretch) pixels
            smin = abs(det) / max(abs(A[0]) + abs(A[1]) + abs(A[3]) + abs(A[4]), F(1, 10**300))
            cond = F(pix_sc) + F(sc) / max(smin, F(1, 10**300))
            okq = cxs.pt_close(q, (F(float(p[0])), F(float(p[1]))), cond)
            R.oracle(okq, "inverse-roundtrip", case, f"wld2pix(pix2wld{tuple(map(float, p))}) = {q}")
    else:
        try:
            g.wld2pix(0.0, 0.0)
            R.oracle(False, "singular-inverse-accepted", case, "wld2pix on a singular affine did not raise")
        except TNI:
            R.oracle(True, "singular-inverse-accepted", case, "", trivial=True)
    # --- extent = images of the corners, in order
    corners = [(0, 0), (0, ny), (nx, ny), (nx, 0), (0, 0)]
    want = [fa_apply(A, (F(x), F(y))) for x, y in corners]
    if ny > 0 and nx > 0 and det != 0:
        got = [tuple(p) for p in g.extent.exterior.points]
        ok = len(got) == 5 and all(cx.pt_close(a, b, sc) for a, b in zip(got, want))
        R.oracle(ok, "extent-not-corner-images", case, f"extent {got} vs corner images {[tuple(map(float, w)) for w in want]}")
    # --- bounding box = hull of the corner images
    bb = g.boundingbox
    xs, ys = [w[0] for w in want], [w[1] for w in want]
    hull = (min(xs), min(ys), max(xs), max(ys))
    ok = all(cx.close(a, b, sc) for a, b in zip(bb.bbox, hull))
    rotated = A[1] != 0 or A[3] != 0
    R.oracle(ok, "bbox-misses-corner", case,
             f"boundingbox {tuple(bb.bbox)} is not the hull {tuple(map(float, hull))} of the four corner images "
             f"(affine {tuple(aff_of(g))[:6]}, shape {(ny, nx)})", sig="bbox|" + ("rotated" if rotated else "st"))
    R.oracle(bb.crs == g.crs, "bbox-crs-changed", case, "", trivial=True)
    # --- coordinates / resolution
    tol = F(1e-10)
    st = abs(A[1]) < tol and abs(A[3]) < tol
    try:
        co = g.coordinates
        if not st:
            R.oracle(False, "coords-on-rotated", case, "coordinates did not raise for a non axis-aligned geobox")
        else:
            (ylab, xlab) = [co[d].values for d in g.dimensions]
            ok = len(xlab) == max(nx, 0) and len(ylab) == max(ny, 0)
            pick = lambda n: range(n) if n <= 80 else list(range(40)) + list(range(n - 40, n))  # noqa: E731
            for i in pick(len(xlab)):
                ok = ok and cx.close(xlab[i], A[0] * (F(i) + F(1, 2)) + A[2], sc)
            for j in pick(len(ylab)):
                ok = ok and cx.close(ylab[j], A[4] * (F(j) + F(1, 2)) + A[5], sc)
            R.oracle(ok, "coords-not-centres", case, f"labels x={list(xlab)[:4]} y={list(ylab)[:4]}")
    except ValueError:
        R.oracle(not st, "coords-raised-on-axis-aligned", case, "coordinates raised ValueError on an axis-aligned geobox")
    if det != 0:
        res = g.resolution
        if st:
            ok = F(res.x) == A[0] and F(res.y) == A[4]
        else:
            # |rx| is the length of one pixel step in x, rx*ry the signed pixel area
            n2 = A[0] ** 2 + A[3] ** 2
            # cholesky forms b^2+e^2-w^2 by subtraction: allow for that cancellation in the area test
            be2 = A[1] ** 2 + A[4] ** 2
            ok = res.x > 0 and abs(F(res.x) ** 2 - n2) <= F(1, 10**9) * n2 and \
                abs(F(res.x) * F(res.y) - det) <= F(1, 10**9) * abs(det) + F(1, 10**12) * n2 * be2 / abs(det)
        R.oracle(ok, "resolution", case, f"resolution {res} for affine {tuple(aff_of(g))[:6]}",
                 sig="res|" + ("st" if st else "rotated"))


# ------------------------------------------------------------------ operations
def norm_index_numpy(s, n):
    """(start, count) selected by numpy for index expression s on a length-n axis, or None if the code's
    un-clamped semantics may differ (out of range) / IndexError"""
    if isinstance(s, int):
        if not -n <= s < n:
            return None
        k = s if s >= 0 else n + s
        return (k, 1)
    r = range(n)[s]
    a = 0 if s.start is None else s.start
    b = n if s.stop is None else s.stop
    if a > n or b > n:  # code does not clamp positive bounds; numpy does
        return None
    cnt = max(0, r.stop - r.start)  # len(range) overflows for huge axes
    if cnt == 0:
        return None
    return (r.start, cnt)


class Ops:
    """Every view operation: real call, driver line, independent contract."""

    def __init__(self, R: Run, mods):
        self.R = R
        self.GB, self.GCP, self.Affine, self.TNI = mods

    # each returns (line_tail, call, contract) ; contract(cx, g, g2) evaluates oracles
    def gen(self, op, g, rng, exact, fixed=None):
        GB, Affine = self.GB, self.Affine
        ny, nx = map(int, g.shape)
        nmax = max(ny, nx)
        if op in ("crop1", "crop2"):
            def gidx(n):
                n = abs(n)
                r = rng.random()
                if r < 0.3:
                    return rng.randint(-n - 2, n + 1)
                lo = rng.choice([None, rng.randint(-n - 2, n + 2)])
                hi = rng.choice([None, rng.randint(-n - 2, n + 2)])
                return slice(lo, hi)
            if op == "crop1":
                sy = gidx(ny) if fixed is None else fixed[0]
                tail, roi, rois = enc_idx(sy), sy, (sy, slice(None))
            else:
                sy, sx = (gidx(ny), gidx(nx)) if fixed is None else fixed
                tail, roi, rois = f"{enc_idx(sy)} {enc_idx(sx)}", (sy, sx), (sy, sx)

            def contract(cx, g, g2, args):
                sely, selx = norm_index_numpy(rois[0], ny), norm_index_numpy(rois[1], nx)
                if sely is None or selx is None:
                    # out-of-range bounds: numpy clamps, the code documents no clamping; only the crs is prescribed
                    cx.R.oracle(g2.crs == g.crs, f"{op}-crs-changed", case_of(op, g, args), "", trivial=True)
                    return
                check_contract(cx, op, g, g2, args, T=fa_tr(selx[0], sely[0]), shape=(sely[1], selx[1]))
            return tail, (lambda: g[roi]), contract
        if op == "pad":
            px = rng.choice([0, 0, rng.randint(-3, 9), rng.randint(1, 5)])
            py = rng.choice([None, 0, 0, rng.randint(-3, 9)])
            if fixed is not None:
                px, py = fixed
            pyv = px if py is None else py
            return (f"{int(px)} {opt_s(py, lambda v: str(int(v)))}", (lambda: g.pad(px, py)),
                    lambda cx, g, g2, args: check_contract(cx, op, g, g2, args, T=fa_tr(-px, -pyv),
                                                           shape=(ny + 2 * pyv, nx + 2 * px)))
        if op == "padwh":
            ax = rng.choice([1, 2, 3, 4, 5, 7, 8, 16, 16, 32, 0, -4])
            ay = rng.choice([None, None, 1, 3, 8, 16, 0])
            if fixed is not None:
                ax, ay = fixed
            ayv = ax if ay is None else ay

            def contract(cx, g, g2, args):
                if ax > 0 and ayv > 0:
                    shp = (-(-ny // ayv) * ayv, -(-nx // ax) * ax)
                    check_contract(cx, op, g, g2, args, shape=shp)
                else:
                    check_contract(cx, op, g, g2, args)
            return f"{ax} {opt_s(ay)}", (lambda: g.pad_wh(ax, ay)), contract
        if op == "resize":
            s2 = (rng.randint(0, 70), rng.randint(0, 70)) if fixed is None else fixed
            f = rng.choice([g.crop, g.expand])
            return (f"{s2[0]} {s2[1]}", (lambda: f(s2)),
                    lambda cx, g, g2, args: check_contract(cx, op, g, g2, args, shape=s2))
        if op == "tpix":
            if exact:
                tx, ty = rng.randint(-512, 512) / 8.0, rng.randint(-512, 512) / 8.0
            else:
                tx, ty = rng.uniform(-100, 100), rng.uniform(-100, 100)
            if rng.random() < 0.15:
                tx = 0.0
            elif rng.random() < 0.15:
                ty = 0
            if fixed is not None:
                tx, ty = fixed
            return (f"{frac_s(tx)} {frac_s(ty)}", (lambda: g.translate_pix(tx, ty)),
                    lambda cx, g, g2, args: check_contract(cx, op, g, g2, args, T=fa_tr(F(tx), F(ty)), shape=(ny, nx)))
        if op in ("left", "right", "top", "bottom"):
            t = {"left": (-nx, 0), "right": (nx, 0), "top": (0, -ny), "bottom": (0, ny)}[op]
            return ("", (lambda: getattr(g, op)),
                    lambda cx, g, g2, args: check_contract(cx, op, g, g2, args, T=fa_tr(*t), shape=(ny, nx)))
        if op == "flipx":
            return ("", (lambda: g.flipx()),
                    lambda cx, g, g2, args: check_contract(cx, op, g, g2, args, T=(F(-1), F(0), F(nx), F(0), F(1), F(0)), shape=(ny, nx)))
        if op == "flipy":
            return ("", (lambda: g.flipy()),
                    lambda cx, g, g2, args: check_contract(cx, op, g, g2, args, T=(F(1), F(0), F(0), F(0), F(-1), F(ny)), shape=(ny, nx)))
        if op == "rot":
            if exact:
                deg = rng.choice([0, 90, 180, 270, -90, -180, 360, 450, -270]) if fixed is None else fixed[0]
                c, s = {0: (1, 0), 90: (0, 1), 180: (-1, 0), 270: (0, -1)}[deg % 360]
                tail = f"{c} {s}"
            else:
                deg = rng.choice([rng.uniform(-360, 360), 30, 45, 90, -90, 180, 1e-3])
                c, s = None, None
                tail = frac_s(deg)

            def contract(cx, g, g2, args):
                A = fa(aff_of(g))
                c0 = fa_apply(A, (F(nx) / 2, F(ny) / 2))
                if exact:
                    cc, ss = F(c), F(s)
                else:
                    r = math.radians(deg % 360.0)
                    cc, ss = F(math.cos(r)), F(math.sin(r))
                    if deg % 360.0 in (90.0, 180.0, 270.0):
                        cc, ss = {90.0: (F(0), F(1)), 180.0: (F(-1), F(0)), 270.0: (F(0), F(-1))}[deg % 360.0]
                W = (cc, -ss, c0[0] - c0[0] * cc + c0[1] * ss, ss, cc, c0[1] - c0[0] * ss - c0[1] * cc)
                check_contract(cx, op, g, g2, args, W=W, shape=(ny, nx))
                # rotation about the centre: centre fixed, distances to the centre preserved
                A2 = fa(aff_of(g2))
                sc = world_scale(A, (ny, nx))
                okc = cx.pt_close(fa_apply(A2, (F(nx) / 2, F(ny) / 2)), c0, sc)
                cx.R.oracle(okc, "rot-centre-moved", case_of(op, g, args), "rotate moved the centre of the footprint")
                okd = True
                for p in sample_pix(cx.R.rng, (ny, nx)):
                    w, w2 = fa_apply(A, p), fa_apply(A2, p)
                    d1 = (w[0] - c0[0]) ** 2 + (w[1] - c0[1]) ** 2
                    d2 = (w2[0] - c0[0]) ** 2 + (w2[1] - c0[1]) ** 2
                    okd = okd and (d1 == d2 or abs(d1 - d2) <= (F(1, 10**11) if exact else F(1, 10**8)) * max(d1, F(sc) ** 2 * F(1, 10**8)))
                cx.R.oracle(okd, "rot-not-isometry", case_of(op, g, args), "rotate changed distances to the centre")
            return tail, (lambda: g.rotate(deg)), contract
        if op == "cpix":
            return ("", (lambda: g.center_pixel),
                    lambda cx, g, g2, args: check_contract(cx, op, g, g2, args, T=fa_tr(nx // 2, ny // 2), shape=(1, 1)))
        if op in ("mul", "rmul"):
            if exact:
                (a, b, d, e), tcls = gen_linear_exact(rng)
                while tcls == "st-tiny-shear":
                    (a, b, d, e), tcls = gen_linear_exact(rng)
                Ag = fa(aff_of(g))
                if F(2) ** -36 in (abs(Ag[1]), abs(Ag[3])):
                    # parent with a sub-tolerance shear: keep the product exact with a small axis-aligned T
                    a, b, d, e = rng.choice([-1, 1]) * pow2(rng, -1, 1), 0.0, 0.0, rng.choice([-1, 1]) * pow2(rng, -1, 1)
                k = 2.0 ** rng.randint(-2, 2) / max(abs(a), abs(b), abs(d), abs(e))
                k = 2.0 ** round(math.log2(k))
                tmax = 64 if F(2) ** -36 in (abs(Ag[1]), abs(Ag[3])) else 4096
                T = Affine(a * k, b * k, rng.randint(-tmax, tmax) / 16.0, d * k, e * k, rng.randint(-tmax, tmax) / 16.0)
            else:
                T = Affine.translation(rng.uniform(-50, 50), rng.uniform(-50, 50)) * Affine.rotation(rng.uniform(-180, 180)) * \
                    Affine.scale(rng.uniform(0.2, 5), rng.uniform(0.2, 5))
            if op == "mul":
                return (enc_aff(T), (lambda: g * T),
                        lambda cx, g, g2, args: check_contract(cx, op, g, g2, args, T=fa(T), shape=(ny, nx)))
            return (enc_aff(T), (lambda: T * g),
                    lambda cx, g, g2, args: check_contract(cx, op, g, g2, args, W=fa(T), shape=(ny, nx)))
        if op == "zout":
            if exact:
                f = rng.choice([0.5, 2.0, 4.0, 0.25, 8.0, 3.0, 1.5, 0.75, 5.0, 2.5, 1.0, 16.0, 64.0, -2.0, 0.0, 6.0, 7.0, 1.25])
            else:
                f = rng.choice([rng.uniform(0.05, 40), 1 / 3, 0.1, 3.0, 10 / 3, 1.1, 7.0, 2.0])
                if rng.random() < 0.5 and max(ny, nx) > 0:
                    # s / f just beside an integer: k +- delta
                    s_ = rng.choice([v for v in (ny, nx) if v > 0])
                    k_ = rng.randint(1, 3 * s_)
                    f = float(F(s_) / (F(k_) + near_delta(rng)))
            if fixed is not None:
                f = fixed[0]

            def contract(cx, g, g2, args):
                if f <= 0:
                    return
                qs = [F(s) / F(f) for s in (ny, nx)]
                want = tuple(max(1, math.ceil(q)) for q in qs)
                got = tuple(map(int, g2.shape))
                # a double quotient within rounding distance of an integer may fall on either side
                near = [abs(q - round(q)) <= F(1, 10**12) * max(q, 1) for q in qs]
                okshape = all(a == b or (nr and abs(a - b) <= 1) for a, b, nr in zip(got, want, near))
                cx.R.oracle(okshape, "zout-shape", case_of(op, g, args), f"zoom_out({f}) of {(ny, nx)} gave {got}, ceil gives {want}")
                check_contract(cx, op, g, g2, args, T=fa_sc(F(f), F(f)))
                okcov = all(F(a) * F(f) >= s * (1 - F(1, 10**12)) for a, s in zip(got, (ny, nx)))
                cx.R.oracle(okcov, "zout-does-not-cover", case_of(op, g, args), f"{got} * {f} < {(ny, nx)}")
            return frac_s(f), (lambda: g.zoom_out(f)), contract
        if op == "ztos":
            if exact:
                def tgt(N):
                    if N == 0 or rng.random() < 0.04:
                        return rng.choice([0, 1, 2])
                    ds = [d for d in range(1, N + 1) if N % d == 0]
                    return max(1, int(rng.choice(ds) * rng.choice([0.5, 1, 1, 2, 4]))) if rng.random() < 0.9 else N * 2
                s2 = (tgt(ny), tgt(nx))
                # keep only targets with dyadic N/n
                def dy(N, n):
                    if n == 0:
                        return True
                    q = F(N, n)
                    return q.denominator & (q.denominator - 1) == 0
                if not (dy(ny, s2[0]) and dy(nx, s2[1])):
                    s2 = (ny, nx * 2)
            else:
                s2 = (rng.randint(1, 3 * max(ny, 1)), rng.randint(1, 3 * max(nx, 1)))
            if fixed is not None:
                s2 = fixed

            def contract(cx, g, g2, args):
                check_contract(cx, op, g, g2, args, T=fa_sc(F(nx) / F(s2[1]), F(ny) / F(s2[0])), shape=s2)
                # same footprint: far corner maps to the same world point
                A, A2 = fa(aff_of(g)), fa(aff_of(g2))
                ok = cx.pt_close(fa_apply(A2, (F(s2[1]), F(s2[0]))), fa_apply(A, (F(nx), F(ny))), world_scale(A, (ny, nx)))
                cx.R.oracle(ok, "ztos-footprint-changed", case_of(op, g, args), "zoom_to(shape) changed the footprint")
            arg = rng.choice([s2, s2, list(s2)])
            return f"{s2[0]} {s2[1]}", (lambda: g.zoom_to(arg)), contract
        if op in ("zton", "S:zton"):
            if op == "zton":  # exact affine: nmax/n dyadic
                ds = [d for d in range(1, max(nmax, 1) + 1) if nmax and nmax % d == 0] or [1]
                n = max(1, int(rng.choice(ds) * rng.choice([0.5, 1, 1, 2, 4])))
                if nmax and n and (F(nmax, n).denominator & (F(nmax, n).denominator - 1)):
                    n = nmax
                if rng.random() < 0.03:
                    n = 0
            else:
                n = rng.randint(1, 3 * max(nmax, 1)) if rng.random() < 0.97 else rng.choice([0, -3])
                if not exact and rng.random() < 0.3 and nmax > 0:
                    # float target: s*n/nmax just beside an integer on the shorter side
                    s_ = max(1, min(ny, nx))
                    n = float((F(rng.randint(1, 2 * s_)) + near_delta(rng)) * nmax / s_)
            if fixed is not None:
                n = fixed[0]

            def contract(cx, g, g2, args):
                if n <= 0 or nmax <= 0:
                    return
                got = tuple(map(int, g2.shape))
                if isinstance(n, int):
                    cx.R.oracle(max(got) == n, "zoom-to-int-longest-side", case_of(op, g, args),
                                f"GeoBox{(ny, nx)}.zoom_to({n}) has shape {got}: longest side {max(got)} != {n}")
                qs = [F(s) * F(n) / nmax for s in (ny, nx)]
                want = tuple(max(1, math.ceil(q)) for q in qs)
                near = [(not isinstance(n, int)) and abs(q - round(q)) <= F(1, 10**12) * max(q, 1) for q in qs]
                cx.R.oracle(all(a == b or (nr and abs(a - b) <= 1) for a, b, nr in zip(got, want, near)), "zoom-to-int-shape",
                            case_of(op, g, args), f"zoom_to({n}) of {(ny, nx)} gave {got}, want {want}")
                check_contract(cx, "zton", g, g2, args, T=fa_sc(F(nmax) / F(n), F(nmax) / F(n)))
            return (str(n) if isinstance(n, int) else frac_s(n)), (lambda: g.zoom_to(n)), contract
        if op == "ztor":
            if exact:
                r = rng.choice([-1, 1]) * pow2(rng, -10, 10)
                if rng.random() < 0.03:
                    r = 0.0
                r2 = rng.choice([None, rng.choice([-1, 1]) * pow2(rng, -10, 10)])
            else:
                base = abs(g.resolution.x)
                r = rng.choice([-1, 1]) * base * rng.choice([rng.uniform(0.2, 8), 2.0, 3.0, 0.5, 1.0])
                r2 = rng.choice([None, None, -r * rng.uniform(0.5, 2)])
                if rng.random() < 0.5:
                    # span / res just beside an integer or beside the 0.01 px tolerance
                    bb_ = g.boundingbox
                    span = F(bb_.right) - F(bb_.left)
                    if span > 0:
                        k_ = rng.randint(1, 40)
                        off_ = rng.choice([F(0), F(0.01), F(1, 2), F(1) - F(0.01)])
                        r = rng.choice([-1, 1]) * float(span / (F(k_) + off_ + near_delta(rng)))
                        r2 = None
            if r2 is None:
                rx, ry = r, -r
                arg = r
            else:
                from odc.geo.types import resxy_
                rx, ry = r, r2
                arg = resxy_(rx, ry)

            def contract(cx, g, g2, args):
                if rx == 0 or ry == 0:
                    return
                case = case_of(op, g, args)
                A2 = fa(aff_of(g2))
                cx.R.oracle(g2.crs == g.crs, "ztor-crs-changed", case, "", trivial=True)
                cx.R.oracle(A2[0] == F(rx) and A2[4] == F(ry) and A2[1] == 0 and A2[3] == 0, "ztor-resolution", case,
                            f"zoom_to(resolution={rx, ry}) has affine {tuple(aff_of(g2))[:6]}")
                # covers the bounding box of the original up to tol=0.01 px, and by less than a pixel too much
                A = fa(aff_of(g))
                cs = [fa_apply(A, (F(x), F(y))) for x, y in [(0, 0), (0, ny), (nx, ny), (nx, 0)]]
                ny2, nx2 = map(int, g2.shape)
                cs2 = [fa_apply(A2, (F(x), F(y))) for x, y in [(0, 0), (nx2, ny2)]]
                ok = True
                for k, rr in ((0, F(rx)), (1, F(ry))):
                    lo, hi = min(c[k] for c in cs), max(c[k] for c in cs)
                    lo2, hi2 = min(c[k] for c in cs2), max(c[k] for c in cs2)
                    slack = abs(rr) * (F(0.01) + F(1, 10**6)) + F(1, 10**9) * max(abs(lo), abs(hi))
                    ok = ok and lo2 <= lo + slack and hi2 >= hi - slack
                    ok = ok and ((hi2 - lo2) - (hi - lo) < abs(rr) + slack or (hi - lo) < abs(rr))
                cx.R.oracle(ok, "ztor-does-not-cover", case, f"zoom_to(resolution) bbox {g2.boundingbox} vs original {g.boundingbox}")
                # two-sided: exact re-computation of the tight snap from the (real) bounding box of the parent
                bb = [F(v) for v in g.boundingbox.bbox]
                want, amb = [], False
                for (lo, hi), rr in (((bb[0], bb[2]), F(rx)), ((bb[1], bb[3]), F(ry))):
                    q = (hi - lo) / abs(rr)
                    fr = q - math.floor(q)
                    n_ = math.floor(q) if fr < F(0.01) else math.ceil(q)
                    # the double quotient is within 1e-15 relative of q: undecidable within that distance of a threshold
                    eps = F(1, 10**12) * max(q, 1)
                    amb = amb or abs(fr - F(0.01)) <= eps or (fr != 0 and (fr <= eps or 1 - fr <= eps))
                    want.append((max(1, n_), lo if rr > 0 else hi))
                got = ((nx2, A2[2]), (ny2, A2[5]))
                cx.R.oracle(amb or all(g_[0] == w_[0] for g_, w_ in zip(got, want)), "ztor-shape", case,
                            f"zoom_to(resolution={rx, ry}) of bbox {tuple(g.boundingbox.bbox)} has shape {(ny2, nx2)}, "
                            f"tight snap with tol 0.01 gives {(want[1][0], want[0][0])}")
                cx.R.oracle(all(g_[1] == w_[1] for g_, w_ in zip(got, want)), "ztor-offset", case,
                            f"zoom_to(resolution) origin {(float(A2[2]), float(A2[5]))} is not the bbox corner "
                            f"{(float(want[0][1]), float(want[1][1]))}")
            return f"{frac_s(rx)} {frac_s(ry)}", (lambda: g.zoom_to(resolution=arg)), contract
        if op == "sdown":
            k = rng.choice([2, 3, 4, 5, 7, 8, 16, 2, 1, 0])

            def contract(cx, g, g2, args):
                shp = (-(-ny // k), -(-nx // k))
                check_contract(cx, op, g, g2, args, T=fa_sc(k, k), shape=shp)
            return str(k), (lambda: GB.scaled_down_geobox(g, k)), contract
        if op == "buf":
            A = fa(aff_of(g))
            n, m = chol_witness(A)
            st = abs(A[1]) < F(1e-10) and abs(A[3]) < F(1e-10)
            if exact and not st and (n is None or m is None):
                return None
            px = max(abs(float(A[0])), abs(float(A[3])), 1e-300)
            if exact:
                xb = rng.randint(-16, 80) / 8.0 * 2.0 ** round(math.log2(px))
                yb = rng.choice([None, rng.randint(-16, 80) / 8.0 * 2.0 ** round(math.log2(px))])
            else:
                xb = rng.uniform(-1, 6) * px
                yb = rng.choice([None, rng.uniform(-1, 6) * px])
                if rng.random() < 0.5:
                    # (buffer - 0.1 res)/res just beside an integer
                    rr_ = g.resolution
                    xb = float((F(rng.randint(0, 6)) + F(0.1) + near_delta(rng)) * abs(F(rr_.x)))
                    yb = rng.choice([None, float((F(rng.randint(0, 6)) + F(0.1) + near_delta(rng)) * abs(F(rr_.y)))])
            if not exact and rng.random() < 0.2:
                xb, yb = rng.choice([(0.0, yb), (xb, 0.0), (0, None), (xb, 0)])
            if fixed is not None:
                xb, yb = fixed
            ybv = xb if yb is None else yb

            def contract(cx, g, g2, args):
                ny2, nx2 = map(int, g2.shape)
                case = case_of(op, g, args)
                if (ny2 - ny) % 2 or (nx2 - nx) % 2:
                    cx.R.oracle(False, "buf-shape", case, f"buffered shape {(ny2, nx2)} from {(ny, nx)}")
                    return
                bx, by = (nx2 - nx) // 2, (ny2 - ny) // 2
                check_contract(cx, op, g, g2, args, T=fa_tr(-bx, -by))
                if st:
                    rxa, rya = abs(A[0]), abs(A[4])
                elif n and m:
                    rxa, rya = n, m
                else:
                    rr = g.resolution
                    rxa, rya = abs(F(rr.x)), abs(F(rr.y))
                ok = True
                for b, buf, r in ((bx, F(xb), rxa), (by, F(ybv), rya)):
                    sl = F(0) if cx.exact else F(1, 10**12) * (abs(buf) + r)
                    lo = buf - F(0.1) * r  # documented: up to 0.1 px may be left uncovered
                    ok = ok and b * r >= lo - sl and (b - 1) * r < lo + sl
                cx.R.oracle(ok, "buf-amount", case, f"buffered({xb},{yb}) grew by {(bx, by)} px of size {(float(rxa), float(rya))}")
            nm = f"{frac_s(n or 1)} {frac_s(m or 1)}"
            return f"{nm} {frac_s(xb)} {opt_s(yb, frac_s)}", (lambda: g.buffered(xb, yb)), contract
        raise KeyError(op)


ALL_OPS = ["crop1", "crop2", "pad", "padwh", "resize", "tpix", "left", "right", "top", "bottom", "flipx", "flipy",
           "rot", "cpix", "mul", "rmul", "zout", "ztos", "zton", "S:zton", "ztor", "sdown", "buf"]


def run_op(R: Run, ops: Ops, cx: Ctx, op: str, g, corr: bool, cls: str = "", fixed=None):
    """one op on one geobox: correspondence line (exact stream) + oracle on the real output"""
    gen = ops.gen(op, g, R.rng, cx.exact, fixed)
    if gen is None:
        return None
    tail, call, contract = gen
    res = []

    def fn():
        try:
            o = call()
        except ops.TNI:
            raise ValueError("not invertible")
        res.append(o)
        return enc_gb(o) if not op.startswith("S:") else f"{int(o.shape[0])} {int(o.shape[1])}"

    line = f"c02 {op} {enc_gb(g)}" + (f" {tail}" if tail else "")
    if corr:
        R.corr(line, fn, sig=f"{op}|{cls}")
    else:
        try:
            fn()
        except Exception as e:  # pylint: disable=broad-except
            R.count(f"float-op-raised:{op}:{type(e).__name__}")
    if res:
        try:
            contract(cx, g, res[0], tail)
        except Exception as e:  # pylint: disable=broad-except
            R.oracle(False, f"{op}-oracle-raised", case_of(op, g, tail), f"{type(e).__name__}: {e}")
        return res[0]
    return None


def narrow(A, span=38) -> bool:
    """all six dyadic coefficients fit a common window of `span` bits, so that products with pixel coordinates
    (<= 2^10, 3 fractional bits) and their sums are exact doubles"""
    hi, lo = None, None
    for v in A:
        v = F(v)
        if v == 0:
            continue
        if v.denominator & (v.denominator - 1):
            return False
        top = abs(v.numerator).bit_length() - v.denominator.bit_length()      # ~ floor(log2 |v|)
        low = (abs(v.numerator) & -abs(v.numerator)).bit_length() - v.denominator.bit_length()  # lowest set bit
        hi = top if hi is None else max(hi, top)
        lo = low if lo is None else min(lo, low)
    return hi is None or hi - lo <= span


def base_view_lines(R: Run, ops: Ops, g, cls: str):
    """correspondence lines for the views of one geobox (exact stream)"""
    if not narrow(tuple(aff_of(g))[:6]):
        R.count("skipped-view-lines:not-narrow")
        return
    GB, _, Affine, TNI = ops.GB, ops.GCP, ops.Affine, ops.TNI
    rng = R.rng
    gs = enc_gb(g)
    ny, nx = map(int, g.shape)
    A = fa(aff_of(g))
    for _ in range(2):
        x, y = rng.randint(-64, 8 * 70) / 8.0, rng.randint(-64, 8 * 70) / 8.0
        R.corr(f"c02 p2w {gs} {frac_s(x)} {frac_s(y)}", lambda: " ".join(frac_s(v) for v in g.pix2wld(x, y)), sig=f"p2w|{cls}")
    det = A[0] * A[4] - A[1] * A[3]
    # wld2pix is exact on the dyadic stream when det is a power of two times a "nice" number: feed images of
    # dyadic pixels and only when the inverse entries are dyadic
    inv_dyadic = det != 0 and all((v / det).denominator & ((v / det).denominator - 1) == 0 for v in (A[0], A[1], A[3], A[4]))
    if inv_dyadic or det == 0:
        x, y = rng.randint(0, 8 * 64) / 8.0, rng.randint(0, 8 * 64) / 8.0
        w = fa_apply(A, (F(x), F(y)))
        if all(abs(v.numerator).bit_length() <= 50 for v in w):
            def fw():
                try:
                    return " ".join(frac_s(v) for v in g.wld2pix(float(w[0]), float(w[1])))
                except TNI:
                    raise ValueError("not invertible")
            R.corr(f"c02 w2p {gs} {frac_s(w[0])} {frac_s(w[1])}", fw, sig=f"w2p|{cls}")
    if ny > 0 and nx > 0 and det != 0:
        R.corr(f"c02 extent {gs}", lambda: list_s([f"{frac_s(px)};{frac_s(py)}" for px, py in g.extent.exterior.points]),
               sig=f"extent|{cls}")
    R.corr(f"c02 bbox {gs}", lambda: " ".join(frac_s(v) for v in g.boundingbox.bbox), sig=f"bbox|{cls}")
    R.corr(f"c02 align {gs}", lambda: " ".join(frac_s(v) for v in g.alignment.xy), sig=f"alignment|{cls}")
    if ny > 0 and nx > 0 and det != 0 and (g.crs is None or crs_tag(g.crs) == 1):
        def fm():
            (ya, xa), (yb, xb) = g.map_bounds()
            return f"{frac_s(ya)} {frac_s(xa)} {frac_s(yb)} {frac_s(xb)}"
        R.corr(f"c02 mapb {gs}", fm, sig=f"map_bounds|{cls}")
    nb = rng.choice([1, 2, 3, 5, 9])
    if ny % 8 == 0 and nx % 8 == 0:  # linspace values exact in float32
        R.corr(f"c02 bnd {gs} {nb}", lambda: list_s([f"{frac_s(float(x))};{frac_s(float(y))}" for x, y in g.boundary(nb)]), sig=f"boundary|n={nb}")

    def fc():
        co = g.coordinates
        ys, xs = [co[d].values for d in g.dimensions]
        return f"{list_s(ys, frac_s)} {list_s(xs, frac_s)}"
    R.corr(f"c02 coords {gs}", fc, sig=f"coords|{cls}")
    n, m = chol_witness(A)
    st = abs(A[1]) < F(1e-10) and abs(A[3]) < F(1e-10)
    if st or (n is not None and m is not None):
        def fr():
            r = g.resolution
            return f"{frac_s(r.x)} {frac_s(r.y)}"
        R.corr(f"c02 res {gs} {frac_s(n or 1)} {frac_s(m or 1)}", fr, sig=f"res|{cls}")



# ------------------------------------------------------------------ accessor table, evaluated on VIEWS
def _acc_slack(cx, gcp):
    if gcp is None:
        return F(1, 10**12) if cx.exact else F(1, 10**9)
    return F(1, 10**7) if gcp["B"] is not None else F(1, 10**9)


def expected_p2w(g, gcp):
    """pixel -> world of a view from its (shape, affine) triple and, for GCP boxes, the composed mapping:
    exactly B o A when the control points are affinely related by B, else fit o A"""
    A = fa(aff_of(g))
    if gcp is None:
        return lambda p: fa_apply(A, p)
    if gcp["B"] is not None:
        BA = fa_mul(gcp["B"], A)
        return lambda p: fa_apply(BA, p)
    p2w = gcp["mapping"].p2w

    def f(p):
        q = fa_apply(A, p)
        w = p2w(float(q[0]), float(q[1]))
        return (F(float(w[0])), F(float(w[1])))
    return f


def _near(a, b, rel, scale):
    a, b = F(float(a)), F(float(b))
    return a == b or abs(a - b) <= rel * max(abs(F(scale)), abs(b))


def _pt_near(a, b, rel, scale):
    return _near(a[0], b[0], rel, scale) and _near(a[1], b[1], rel, scale)


def _wscale(g, gcp):
    ny, nx = map(int, g.shape)
    e = expected_p2w(g, gcp)
    ws = [e((F(x), F(y))) for x, y in [(0, 0), (nx, 0), (0, ny), (nx, ny)]]
    return max([abs(v) for w in ws for v in w] + [F(1, 10**300)])


def acc_shape(cx, g, gcp, case):
    ny, nx = map(int, g.shape)
    ok = g.width == nx and g.height == ny and tuple(g.shape) == (ny, nx) and g.shape.x == nx and g.shape.y == ny
    ok = ok and g.is_empty() == (ny == 0 or nx == 0) and bool(g) == (not g.is_empty())
    if ny != 0:
        ok = ok and abs(g.aspect - nx / ny) <= 1e-12 * abs(nx / ny)
    return ok, f"width/height/shape/aspect/is_empty inconsistent for shape {(ny, nx)}"


def acc_crs(cx, g, gcp, case):
    want = ("y", "x") if g.crs is None else g.crs.dimensions
    return g.dims == want and g.dimensions == want and crs_tag(g.crs) != 99, f"dims {g.dims}"


def acc_affine(cx, g, gcp, case):
    if gcp is not None:
        return True, ""
    return g.affine == aff_of(g) and g.transform == aff_of(g), "affine/transform is not the triple's affine"


def acc_linear(cx, g, gcp, case):
    A = fa(aff_of(g))
    st = abs(A[1]) < F(1e-10) and abs(A[3]) < F(1e-10)
    if gcp is not None:
        return g.linear is False and g.axis_aligned is False, "GCP box claims to be linear / axis aligned"
    return g.linear is True and bool(g.axis_aligned) == st, f"axis_aligned={g.axis_aligned} for affine {tuple(aff_of(g))[:6]}"


def acc_alignment(cx, g, gcp, case):
    A = fa(aff_of(g))
    if A[0] == 0 or A[4] == 0:
        return True, ""
    al = g.alignment
    ok = True
    for got, t, r in ((al.x, A[2], abs(A[0])), (al.y, A[5], abs(A[4]))):
        want = t - (t // r) * r
        d = abs(F(float(got)) - want)
        d = min(d, r - d)  # wraps at the pixel size
        ok = ok and d <= F(1, 10**9) * max(r, abs(t))
    return ok, f"alignment {al} for affine {tuple(aff_of(g))[:6]}"


def acc_boundary(cx, g, gcp, case):
    from odc.geo.geobox import gbox_boundary
    ny, nx = map(int, g.shape)
    pts = g.boundary(4)
    ok = all((x in (0, nx) and 0 <= y <= ny) or (y in (0, ny) and 0 <= x <= nx) for x, y in pts.tolist())
    have = {tuple(p) for p in pts.tolist()}
    ok = ok and all((float(x), float(y)) in have for x, y in [(0, 0), (nx, 0), (0, ny), (nx, ny)])
    ok = ok and np.array_equal(gbox_boundary(g, 4), pts)
    return ok, f"boundary(4) = {pts.tolist()} for shape {(ny, nx)}"


def acc_p2w(cx, g, gcp, case):
    rel, sc, e = _acc_slack(cx, gcp), _wscale(g, gcp), expected_p2w(g, gcp)
    for p in sample_pix(cx.R.rng, tuple(map(int, g.shape))):
        pf = (F(float(p[0])), F(float(p[1])))
        w = g.pix2wld(float(p[0]), float(p[1]))
        if not _pt_near(w, e(pf), rel, sc):
            return False, f"pix2wld{tuple(map(float, p))} = {tuple(map(float, w))}, composed mapping gives {tuple(map(float, e(pf)))}"
    return True, ""


def acc_w2p(cx, g, gcp, case):
    A = fa(aff_of(g))
    det = A[0] * A[4] - A[1] * A[3]
    if det == 0 or min(g.shape) <= 0:
        return True, ""
    ny, nx = map(int, g.shape)
    e = expected_p2w(g, gcp)
    for p in sample_pix(cx.R.rng, (ny, nx))[:5]:
        pf = (F(float(p[0])), F(float(p[1])))
        w = e(pf)
        q = g.wld2pix(float(w[0]), float(w[1]))
        if gcp is None:
            sc = world_scale(A, (ny, nx))
            smin = abs(det) / max(abs(A[0]) + abs(A[1]) + abs(A[3]) + abs(A[4]), F(1, 10**300))
            tol = F(1, 10**9) * (max(nx, ny, 1) + F(sc) / max(smin, F(1, 10**300)))
            bad = abs(F(float(q[0])) - pf[0]) > tol or abs(F(float(q[1])) - pf[1]) > tol
        else:
            # judged in the pixel space of the control points: the fitted inverse polynomial is an independent
            # fit (error well below 0.05 px inside the control-point grid; exact up to 1e-4 px for affine GCPs)
            m0, m1 = fa_apply(A, pf), fa_apply(A, (F(float(q[0])), F(float(q[1]))))
            ny0, nx0 = gcp["shape0"]
            if gcp["B"] is None and not (0 <= m0[0] <= nx0 and 0 <= m0[1] <= ny0):
                continue
            tol = F(1, 10**4) * max(nx0, ny0) if gcp["B"] is not None else F(5, 100)
            bad = abs(m1[0] - m0[0]) > tol or abs(m1[1] - m0[1]) > tol
        if bad:
            return False, f"wld2pix(world of pixel {tuple(map(float, p))}) = {tuple(map(float, q))}"
    return True, ""


def acc_extent(cx, g, gcp, case):
    if min(g.shape) <= 0:
        return True, ""
    A = fa(aff_of(g))
    if A[0] * A[4] - A[1] * A[3] == 0:
        return True, ""
    ny, nx = map(int, g.shape)
    rel, sc, e = _acc_slack(cx, gcp), _wscale(g, gcp), expected_p2w(g, gcp)
    got = [tuple(p) for p in g.extent.exterior.points]
    if gcp is None:
        pix = [(0, 0), (0, ny), (nx, ny), (nx, 0), (0, 0)]
    else:
        pix = [tuple(p) for p in g.boundary(16).tolist()]
        if pix[0] != pix[-1]:
            pix.append(pix[0])
    want = [e((F(float(x)), F(float(y)))) for x, y in pix]
    ok = len(got) == len(want) and all(_pt_near(a, b, rel, sc) for a, b in zip(got, want))
    return ok, f"extent vertices {got[:5]} are not the images {[tuple(map(float, w)) for w in want[:5]]} of the pixel-rectangle boundary"


def acc_bbox(cx, g, gcp, case):
    if gcp is None and min(g.shape) < 0:
        return True, ""
    if gcp is not None and min(g.shape) <= 0:
        return True, ""
    ny, nx = map(int, g.shape)
    rel, sc, e = _acc_slack(cx, gcp), _wscale(g, gcp), expected_p2w(g, gcp)
    if gcp is None:
        pix = [(0, 0), (0, ny), (nx, ny), (nx, 0)]
    else:
        pix = [tuple(p) for p in g.boundary(16).tolist()]
    ws = [e((F(float(x)), F(float(y)))) for x, y in pix]
    hull = (min(w[0] for w in ws), min(w[1] for w in ws), max(w[0] for w in ws), max(w[1] for w in ws))
    bb = g.boundingbox
    ok = all(_near(a, b, rel, sc) for a, b in zip(bb.bbox, hull)) and bb.crs == g.crs
    return ok, f"boundingbox {tuple(bb.bbox)} is not the hull {tuple(map(float, hull))} of the footprint"


def acc_coords(cx, g, gcp, case):
    if gcp is not None:
        return True, ""
    A = fa(aff_of(g))
    st = abs(A[1]) < F(1e-10) and abs(A[3]) < F(1e-10)
    ok_alias = type(g).coords is type(g).coordinates
    try:
        co = g.coordinates
    except ValueError:
        return (not st) and ok_alias, "coordinates raised ValueError on an axis-aligned view"
    if not st:
        return False, "coordinates did not raise for a rotated / sheared view"
    ny, nx = map(int, g.shape)
    ylab, xlab = [co[d].values for d in g.dimensions]
    rel, sc, e = _acc_slack(cx, None), _wscale(g, None), expected_p2w(g, None)
    ok = ok_alias and len(xlab) == max(nx, 0) and len(ylab) == max(ny, 0)
    pick = lambda n: range(n) if n <= 40 else list(range(20)) + list(range(n - 20, n))  # noqa: E731
    for i in pick(len(xlab)):
        ok = ok and _near(xlab[i], e((F(i) + F(1, 2), F(0)))[0] - A[1] * 0, rel, sc)
    for j in pick(len(ylab)):
        ok = ok and _near(ylab[j], e((F(0), F(j) + F(1, 2)))[1], rel, sc)
    ok = ok and F(float(co[g.dimensions[1]].resolution)) == A[0] and F(float(co[g.dimensions[0]].resolution)) == A[4]
    return ok, f"coordinate labels x={list(xlab)[:3]} y={list(ylab)[:3]} are not the pixel centres of the view"


def _res_ok(res, L, rel=F(1, 10**9), branch=None):
    """resolution against the linear part L=(a,b,d,e) of pixel->world"""
    a, b, d, e = L
    det = a * e - b * d
    if det == 0:
        return True
    st = abs(b) < F(1e-10) and abs(d) < F(1e-10) if branch is None else branch == "st"
    if st:
        return _near(res.x, a, rel, abs(a)) and _near(res.y, e, rel, abs(e))
    n2, be2 = a * a + d * d, b * b + e * e
    return res.x > 0 and abs(F(float(res.x)) ** 2 - n2) <= 2 * rel * n2 and \
        abs(F(float(res.x)) * F(float(res.y)) - det) <= rel * abs(det) + F(1, 10**12) * n2 * be2 / abs(det)


def acc_resolution(cx, g, gcp, case):
    A = fa(aff_of(g))
    if A[0] * A[4] - A[1] * A[3] == 0:
        return True, ""
    res = g.resolution
    if gcp is None:
        L = (A[0], A[1], A[3], A[4])
        rel = F(1, 10**9)
    else:
        Bm = gcp["B"] if gcp["B"] is not None else fa(gcp["mapping"].approx)
        BA = fa_mul(Bm, A)
        L = (BA[0], BA[1], BA[3], BA[4])
        rel = F(1, 10**6)
        # is_affine_st is applied to the *fitted* linear part: when fit noise in b, d decides the branch, both the
        # axis-aligned reading (a, e) and the decomposition (|col 1|, det/|col 1|) are accepted
        if max(abs(L[1]), abs(L[2])) < F(1, 10**6) * max(abs(L[0]), abs(L[3])):
            ok = _res_ok(res, L, rel, "st") or _res_ok(res, L, rel, "rot")
            return ok, f"resolution {res} is neither (a, e) nor the decomposed pixel size of linear part {tuple(map(float, L))}"
    return _res_ok(res, L, rel), f"resolution {res} is not the pixel size of the view's pixel->world map (linear part {tuple(map(float, L))})"


def acc_project(cx, g, gcp, case):
    from odc.geo import geom as G
    ny, nx = map(int, g.shape)
    if min(ny, nx) <= 0:
        return True, ""
    A = fa(aff_of(g))
    if A[0] * A[4] - A[1] * A[3] == 0:
        return True, ""
    rel, sc, e = _acc_slack(cx, gcp), _wscale(g, gcp), expected_p2w(g, gcp)
    pix = [(0.0, 0.0), (float(nx), 0.0), (float(nx), float(ny)), (0.0, 0.0)]
    w = g.project(G.polygon(pix, None))
    got = [tuple(p) for p in w.exterior.points]
    ok = w.crs == g.crs and all(_pt_near(a, e((F(x), F(y))), rel, sc) for a, (x, y) in zip(got, pix))
    return ok, f"project(pixel triangle) = {got}"


def acc_footprint(cx, g, gcp, case):
    if g.crs is None or min(g.shape) <= 0:
        return True, ""
    A = fa(aff_of(g))
    if A[0] * A[4] - A[1] * A[3] == 0:
        return True, ""
    fp = g.footprint(g.crs)
    a, b = fp.boundingbox.bbox, g.extent.boundingbox.bbox
    sc = _wscale(g, gcp)
    ok = fp.crs == g.crs and all(_near(x, y, F(1, 10**9), sc) for x, y in zip(a, b))
    ok = ok and abs(fp.area - g.extent.area) <= 1e-9 * max(abs(g.extent.area), 1e-300)
    return ok, f"footprint(own crs) bbox {tuple(a)} vs extent bbox {tuple(b)}"


def acc_geographic_extent(cx, g, gcp, case):
    if min(g.shape) <= 0 or not (g.crs is None or g.crs.geographic):
        return True, ""
    A = fa(aff_of(g))
    if A[0] * A[4] - A[1] * A[3] == 0:
        return True, ""
    ge, ex = g.geographic_extent, g.extent
    return ge.crs == ex.crs and ge.exterior.points == ex.exterior.points, "geographic_extent differs from extent"


def acc_map_bounds(cx, g, gcp, case):
    if min(g.shape) <= 0 or not (g.crs is None or crs_tag(g.crs) == 1):
        return True, ""
    A = fa(aff_of(g))
    if A[0] * A[4] - A[1] * A[3] == 0:
        return True, ""
    (ya, xa), (yb, xb) = g.map_bounds()
    sc = _wscale(g, gcp)
    if gcp is None:
        ny, nx = map(int, g.shape)
        e = expected_p2w(g, None)
        p0, p2 = e((F(0), F(0))), e((F(nx), F(ny)))
        ok = _pt_near((xa, ya), p0, F(1, 10**9), sc) and _pt_near((xb, yb), p2, F(1, 10**9), sc)
    else:
        x0, y0, x1, y1 = g.extent.boundingbox.bbox
        ok = all(_near(u, v, F(1, 10**9), sc) for u, v in zip((xa, ya, xb, yb), (x0, y0, x1, y1)))
    return ok, f"map_bounds {((ya, xa), (yb, xb))}"


def acc_qr2sample(cx, g, gcp, case):
    ny, nx = map(int, g.shape)
    if min(ny, nx) <= 0:
        return True, ""
    q = g.qr2sample(7)
    pts = [tuple(p.coords[0]) for p in q.geoms]
    return len(pts) == 7 and all(0 <= x <= nx and 0 <= y <= ny for x, y in pts) and q.crs is None, f"qr2sample {pts}"


def acc_approx(cx, g, gcp, case):
    """GCPGeoBox.approx of a VIEW: the linear GeoBox `mapping.approx o affine`, same shape and crs"""
    if gcp is None:
        return True, ""
    ap = g.approx
    A = fa(aff_of(g))
    want = fa_mul(fa(gcp["mapping"].approx), A)
    got = fa(ap.affine)
    ny, nx = map(int, g.shape)
    ok = tuple(map(int, ap.shape)) == (ny, nx) and ap.crs == g.crs
    sc = world_scale(want, (ny, nx))
    bad = None
    for p in sample_pix(cx.R.rng, (ny, nx)):
        a, b = fa_apply(got, p), fa_apply(want, p)
        if not _pt_near(a, b, F(1, 10**9), sc):
            ok, bad = False, (p, a, b)
            break
    if ok and gcp["B"] is not None:
        e = expected_p2w(g, gcp)
        for p in sample_pix(cx.R.rng, (ny, nx)):
            a, b = fa_apply(got, p), e(p)
            if not _pt_near(a, b, F(1, 10**7), sc):
                ok, bad = False, (p, a, b)
                break
    msg = "" if ok else (f"approx of the view has shape {tuple(ap.shape)}, crs {ap.crs}" if bad is None else
                         f"approx puts pixel {tuple(map(float, bad[0]))} of the view at {tuple(map(float, bad[1]))}, "
                         f"the view's own pixel->world map puts it at {tuple(map(float, bad[2]))}")
    return ok, msg


def acc_gcps(cx, g, gcp, case):
    if gcp is None:
        return True, ""
    A = fa(aff_of(g))
    if A[0] * A[4] - A[1] * A[3] == 0:
        return True, ""
    pts = g.gcps()
    pix, wld = mapping_points(gcp["mapping"])
    ok = len(pts) == len(pix)
    for gp, (px, py), (wx, wy) in zip(pts, pix, wld):
        back = fa_apply(A, (F(float(gp.col)), F(float(gp.row))))
        ok = ok and _pt_near(back, (F(float(px)), F(float(py))), F(1, 10**9), max(abs(px), abs(py), 1.0))
        ok = ok and gp.x == wx and gp.y == wy
    return ok, "gcps(): control points are not pulled back through the view's affine"


def acc_aliases(name):
    def f(cx, g, gcp, case):
        if gcp is not None:
            return True, ""
        from odc.geo import geobox as GBm
        fn = getattr(GBm, name)
        if name == "pad":
            return fn(g, 2, 3) == g.pad(2, 3), "alias differs"
        if name == "pad_wh":
            return fn(g, 8, 4) == g.pad_wh(8, 4), "alias differs"
        if name == "translate_pix":
            return fn(g, 1.5, -2.0) == g.translate_pix(1.5, -2.0), "alias differs"
        if name == "rotate":
            return fn(g, 90) == g.rotate(90), "alias differs"
        if name in ("flipx", "flipy"):
            return fn(g) == getattr(g, name)(), "alias differs"
        if name == "zoom_out":
            return fn(g, 2.0) == g.zoom_out(2.0), "alias differs"
        if name == "zoom_to":
            return fn(g, (3, 5)) == g.zoom_to((3, 5)), "alias differs"
        if name == "affine_transform_pix":
            T = fa_tr(1, 2)
            from affine import Affine
            return fn(g, Affine(*map(float, T))) == g * Affine(*map(float, T)), "alias differs"
        return True, ""
    return f


OP = "view operation: contract checked by the op oracles (also in chains and on GCP boxes)"
ACC = {
    "shape": acc_shape, "width": acc_shape, "height": acc_shape, "aspect": acc_shape, "is_empty": acc_shape,
    "crs": acc_crs, "dimensions": acc_crs, "dims": acc_crs, "affine": acc_affine, "transform": acc_affine,
    "linear": acc_linear, "axis_aligned": acc_linear, "alignment": acc_alignment,
    "pix2wld": acc_p2w, "wld2pix": acc_w2p, "extent": acc_extent, "boundingbox": acc_bbox, "boundary": acc_boundary,
    "gbox_boundary": acc_boundary, "coordinates": acc_coords, "coords": acc_coords, "resolution": acc_resolution,
    "project": acc_project, "footprint": acc_footprint, "geographic_extent": acc_geographic_extent,
    "map_bounds": acc_map_bounds, "qr2sample": acc_qr2sample, "approx": acc_approx, "gcps": acc_gcps,
    "compute_crop": OP, "crop": OP, "expand": OP, "pad": OP, "pad_wh": OP, "translate_pix": OP, "left": OP, "right": OP,
    "top": OP, "bottom": OP, "flipx": OP, "flipy": OP, "rotate": OP, "center_pixel": OP, "compute_zoom_out": OP,
    "zoom_out": OP, "compute_zoom_to": OP, "zoom_to": OP, "buffered": OP, "scaled_down_geobox": OP,
    "affine_transform_pix": OP,
    "enclosing": "C08", "snap_to": "C16", "overlap_roi": "C16", "to_crs": "C11", "from_bbox": "C08",
    "from_geopolygon": "C08", "from_rio": "constructor", "pixel_translation": "C16",
    "bounding_box_in_pixel_domain": "C16", "geobox_union_conservative": "C16",
    "geobox_intersection_conservative": "C16", "svg": "display", "grid_lines": "display", "outline": "display",
    "explore": "display", "compat": "datacube interop",
}
MODULE_ALIASES = ["flipx", "flipy", "pad", "pad_wh", "rotate", "translate_pix", "zoom_out", "zoom_to", "affine_transform_pix"]
_DISCOVERED = {}


def discover_accessors(GB, GCP):
    if _DISCOVERED:
        return _DISCOVERED
    mod_fns = [n for n in dir(GB) if not n.startswith("_") and callable(getattr(GB, n))
               and getattr(getattr(GB, n), "__module__", "") == GB.__name__ and not isinstance(getattr(GB, n), type)]
    _DISCOVERED["GeoBox"] = [n for n in dir(GB.GeoBox) if not n.startswith("_")]
    _DISCOVERED["GCPGeoBox"] = [n for n in dir(GCP.GCPGeoBox) if not n.startswith("_")]
    _DISCOVERED["module"] = mod_fns
    return _DISCOVERED


def accessor_table_lines(R: Run, GB, GCP):
    """every live public name must be known to the model's table and have a checker / a stated reason here"""
    d = discover_accessors(GB, GCP)
    for name in sorted(set(d["GeoBox"]) | set(d["GCPGeoBox"]) | set(d["module"])):
        R.corr(f"c02 acc {name}", lambda: "T" if name in ACC else "F", sig="accessor-table|" + ("known" if name in ACC else "UNKNOWN"))


def check_accessors(cx: Ctx, g, gcp=None, only=None):
    """evaluate every public accessor of the (view) geobox against the view's own pixel->world contract"""
    R = cx.R
    mods = _import()
    d = discover_accessors(mods[0], mods[1])
    names = d["GCPGeoBox"] if gcp is not None else d["GeoBox"] + (["gbox_boundary"] if True else [])
    pre = "gcp-acc-" if gcp is not None else "acc-"
    case = {"op": pre + "views", "gbox": enc_gb(g), "args": "" if gcp is None else gcp.get("desc", "")}
    done = set()
    for name in names:
        chk = ACC.get(name)
        if chk is None or isinstance(chk, str) or chk in done:
            continue
        if only is not None and name not in only:
            continue
        done.add(chk)
        try:
            ok, msg = chk(cx, g, gcp, case)
        except Exception as e:  # pylint: disable=broad-except
            ok, msg = False, f"{name} raised {type(e).__name__}: {e}"
        R.oracle(ok, pre + chk.__name__[4:], case, "" if ok else f"{type(g).__name__}{tuple(g.shape)}.{name}: {msg}",
                 sig=pre + chk.__name__[4:])
    if gcp is None and only is None and min(g.shape) > 0 and cx.R.rng.random() < 0.2:
        for name in MODULE_ALIASES:
            try:
                ok, msg = acc_aliases(name)(cx, g, gcp, case)
            except Exception as e:  # pylint: disable=broad-except
                ok, msg = False, f"{type(e).__name__}: {e}"
            R.oracle(ok, "acc-alias-" + name, case, f"odc.geo.geobox.{name}(gbox, ...) differs from the method", trivial=True)


# ------------------------------------------------------------------ falsy-but-meaningful option values
FALSY_OPTIONS = {
    # op: list of explicit argument tuples; 0 / 0.0 / False in EACH position independently, next to None
    "pad": [(3, 0), (0, 3), (0, 0), (3, None), (0, None), (-2, 0), (2, False), (False, 2), (1, 1)],
    "padwh": [(4, None), (4, 1), (1, 4), (1, None), (4, 0), (0, 4), (0, None)],
    "resize": [(0, 5), (5, 0), (0, 0), (3, 4)],
    "tpix": [(0, 3), (3, 0), (0.0, -2.5), (-2.5, 0.0), (0, 0), (False, 1)],
    "rot": [(0,), (0.0,), (360,), (90,), (-0.0,)],
    "zout": [(1,), (1.0,), (True,), (0,), (0.0,), (2,)],
    "buf": "special",
    "crop1": [(0,), (slice(0, 0),), (slice(None, 0),), (slice(0, None),), (slice(0, 1),), (False,), (-1,), (slice(-1, None),)],
    "crop2": [(0, 0), (0, slice(None)), (slice(None), 0), (slice(0, 0), slice(None)), (slice(None), slice(0, 0)),
              (slice(0, 1), 0), (0, slice(0, 1)), (-1, 0), (0, -1), (slice(1, None), slice(0, None))],
}


def falsy_sweep(R: Run, ops: Ops, cxE: Ctx, cxF: Ctx):
    GB, GCP, Affine = ops.GB, ops.GCP, ops.Affine
    bases = [
        GB.GeoBox((5, 7), Affine(2.0, 0.0, 100.0, 0.0, -2.0, 50.0), "EPSG:3857"),
        GB.GeoBox((4, 1), Affine(-0.5, 0.0, 3.25, 0.0, 0.25, -7.0), None),
        GB.GeoBox((3, 6), Affine(0.0, 4.0, 10.0, -4.0, 0.0, 20.0), "EPSG:4326"),
        GB.GeoBox((6, 5), Affine(3.0, -4.0, 7.5, 4.0, 3.0, -2.25), "EPSG:32633"),
        GB.GeoBox((2, 9), Affine(1.0, 0.5, 0.0, 0.0, -1.0, 8.0), None),
    ]
    for g in bases:
        ny, nx = map(int, g.shape)
        for op, optl in FALSY_OPTIONS.items():
            if optl == "special":
                r = abs(float(g.resolution.x))
                optl = [(0, None), (0.0, 2 * r), (2 * r, 0), (2 * r, 0.0), (0, 0), (2 * r, None), (False, r)]
            for fixed in optl:
                run_op(R, ops, cxE, op, g, True, "falsy", fixed=fixed)
        run_op(R, ops, cxE, "ztos", g, True, "falsy", fixed=(ny, nx))
        run_op(R, ops, cxE, "zton", g, True, "falsy", fixed=(max(ny, nx),))
        run_op(R, ops, cxE, "mul", g, True, "falsy")
    # GCP geoboxes: fresh box and a cropped view, affine and distorted control points
    for B, aff in ((Affine(30.0, 0, 5e5, 0, -30.0, 6e6), True), (Affine(24.0, -18.0, 5e5, -18.0, -24.0, 6e6), True),
                   (Affine(30.0, 3.0, 5e5, -2.0, -15.0, 6e6), False)):
        mapping = build_gcp_mapping(GCP, 12, 16, B, aff)
        gctx = {"mapping": mapping, "B": fa(B) if aff else None, "shape0": (12, 16), "desc": f"12 16 {enc_aff(B)} {int(aff)}"}
        g0 = GCP.GCPGeoBox((12, 16), mapping)
        for g in (g0, g0[2:9, 3:11]):
            ny, nx = map(int, g.shape)
            for op in ("pad", "padwh", "zout", "crop1", "crop2"):
                for fixed in FALSY_OPTIONS[op]:
                    g2 = gcp_step(R, ops, cxE, cxF, g, op, gctx, fixed=fixed)
                    if g2 is not None and min(g2.shape) > 0 and op == "pad":
                        check_accessors(cxF, g2, gctx, only=("pix2wld", "approx", "extent"))
            gcp_step(R, ops, cxE, cxF, g, "ztos", gctx, fixed=(ny, nx))
            gcp_step(R, ops, cxE, cxF, g, "zton", gctx, fixed=(max(ny, nx),))
            # gcps() of views whose pixel-side affine has a dyadic inverse: zoom, then crop, then pad
            for v in (g, g.zoom_out(2), g.zoom_out(2)[1:3, 2:5], g.zoom_out(0.5)[1:, 2:].pad(3, 1)):
                cps = [f"{frac_s(px)};{frac_s(py)}" for px, py in mapping_points(mapping)[0]]
                R.corr(f"c02 gcps {enc_gb(v)} " + list_s(cps),
                       lambda: list_s([f"{frac_s(float(gp.col))};{frac_s(float(gp.row))}" for gp in v.gcps()]), sig="gcp|gcps")


# ------------------------------------------------------------------ index / region kinds of __getitem__
def index_kind_lines(R: Run, GB, GCP, Affine):
    """probe gbox[<kind>] for every kind of index object on GeoBox and GCPGeoBox: the outcome (accepted / error
    class) must be the one the model's table lists; a kind that starts / stops being accepted is a break"""
    from odc.geo import geom as G
    g = GB.GeoBox((10, 20), Affine(2, 0, 100, 0, -2, 50), "epsg:3857")
    w = g[2:5, 3:9]
    mapping = build_gcp_mapping(GCP, 10, 20, g.affine, True, "epsg:3857")
    gc = GCP.GCPGeoBox((10, 20), mapping)
    other = w.extent.to_crs("epsg:4326")
    cands = {
        "int": 3, "np.int64": np.int64(3), "bool": True, "float": 3.0, "slice": slice(2, 5), "slice-step1": slice(2, 5, 1),
        "slice-step2": slice(2, 8, 2), "tuple2-slices": (slice(2, 5), slice(3, 9)), "tuple2-ints": (2, 3),
        "tuple2-mixed": (2, slice(3, 9)), "tuple1": (slice(2, 5),), "tuple3": (1, 2, 3), "list2": [slice(2, 5), slice(3, 9)],
        "ellipsis": Ellipsis, "none": None, "str": "a", "ndarray": np.arange(3),
        "Geometry-same-crs": w.extent, "Geometry-no-crs": G.box(3, 2, 9, 5, None), "Geometry-other-crs": other,
        "Geometry-point": G.point(110, 40, "epsg:3857"), "Geometry-line": G.line([(110, 40), (120, 35)], "epsg:3857"),
        "Geometry-multipolygon": G.multipolygon([[[(110, 40), (120, 40), (120, 35), (110, 40)]]], "epsg:3857"),
        "BoundingBox-same-crs": w.boundingbox, "BoundingBox-no-crs": G.BoundingBox(3, 2, 9, 5, None),
        "BoundingBox-other-crs": other.boundingbox, "GeoBox-window": w,
        "GeoBox-other-grid": GB.GeoBox((3, 4), Affine(3, -1, 108, 1, 3, 36), "epsg:3857"),
        "GeoBox-other-crs": GB.GeoBox((3, 3), Affine(2e-5, 0, other.boundingbox.left, 0, -2e-5, other.boundingbox.top), "epsg:4326"),
        "GCPGeoBox": gc[2:5, 3:9],
    }
    for tname, tgt in (("GeoBox", g), ("GCPGeoBox", gc)):
        for k, v in cands.items():
            def fn():
                o = tgt[v]
                assert type(o) is type(tgt)
                return "ok"
            R.corr(f"c02 idxkind {k}", fn, sig=f"index-kind|{tname}")


_TRANSFORMERS = {}
WINDOW_NOISE_KEY = "window-of-self-grows-by-float-noise"


def _transformer(src, dst):
    import pyproj
    key = (str(src), str(dst))
    if key not in _TRANSFORMERS:
        _TRANSFORMERS[key] = pyproj.Transformer.from_crs(str(src), str(dst), always_xy=True)
    return _TRANSFORMERS[key]


def densify_ring(pts, n):
    out = []
    for (x0, y0), (x1, y1) in zip(pts[:-1], pts[1:]):
        for k in range(n):
            t = k / n
            out.append((x0 + (x1 - x0) * t, y0 + (y1 - y0) * t))
    out.append(pts[-1])
    return out


def region_vertices(roi):
    """(vertices in the region's own crs, crs, closed?) for Geometry / BoundingBox / GeoBoxBase"""
    from odc.geo import geom as G
    from odc.geo.geobox import GeoBoxBase
    if isinstance(roi, GeoBoxBase):
        ny, nx = map(int, roi.shape)
        if getattr(roi, "linear", True):
            A = fa(aff_of(roi))
            pts = [tuple(float(v) for v in fa_apply(A, (F(x), F(y)))) for x, y in [(0, 0), (0, ny), (nx, ny), (nx, 0), (0, 0)]]
        else:
            pts = [tuple(p) for p in roi.extent.exterior.points]
        return pts, roi.crs, True
    if isinstance(roi, G.BoundingBox):
        l, b, r, t = roi.bbox
        return [(l, b), (l, t), (r, t), (r, b), (l, b)], roi.crs, True
    gg = roi.geom
    if gg.geom_type == "Polygon":
        return [tuple(p[:2]) for p in gg.exterior.coords], roi.crs, True
    if gg.geom_type in ("Point", "LineString"):
        return [tuple(p[:2]) for p in gg.coords], roi.crs, False
    pts = []
    for part in gg.geoms:
        pts += [tuple(p[:2]) for p in (part.exterior.coords if part.geom_type == "Polygon" else part.coords)]
    return pts, roi.crs, False


def region_oracle(cx: Ctx, g, roi, kind, got, gctx=None, clip=True):
    """two-sided, in pixels of the parent: gbox[region] is the smallest whole-pixel window that contains the region's
    pixel-space bounding box, clipped to the parent, at least one pixel; for a window of the parent: the window"""
    R = cx.R
    ny, nx = map(int, g.shape)
    A = fa(aff_of(g))
    det = A[0] * A[4] - A[1] * A[3]
    pts, rcrs, closed = region_vertices(roi)
    desc = {"kind": kind, "crs": crs_tag(rcrs), "pts": [f"{frac_s(x)};{frac_s(y)}" for x, y in pts][:12]}
    case = {"op": "region" if clip else "enclosing", "gbox": enc_gb(g), "args": desc}
    keyp = "region" if clip else "enclosing"
    if det == 0:
        return
    other_crs = rcrs is not None and g.crs is not None and rcrs != g.crs
    slack_px = F(0)
    if rcrs is None:
        mp = [(F(float(x)), F(float(y))) for x, y in pts]  # already pixel coordinates
        if gctx is not None:
            mp = None
    if rcrs is not None or (gctx is not None and rcrs is None):
        if other_crs:
            dense = densify_ring(pts, 24) if len(pts) > 1 else pts
            tr = _transformer(rcrs, g.crs)
            wpts = [tr.transform(x, y) for x, y in dense]
            slack_px = F(1)
        else:
            wpts = pts
        if gctx is None:
            # exact inverse on the (float) vertices the code is given
            inv = (A[4] / det, -A[1] / det, None, -A[3] / det, A[0] / det, None)
            mp = []
            for x, y in wpts:
                dx, dy = F(float(x)) - A[2], F(float(y)) - A[5]
                mp.append((inv[0] * dx + inv[1] * dy, inv[3] * dx + inv[4] * dy))
        elif rcrs is not None:
            mp = []
            for x, y in wpts:
                q = g.wld2pix(float(x), float(y))
                mp.append((F(float(q[0])), F(float(q[1]))))
            slack_px = max(slack_px, F(1))  # fit error of the inverse polynomial
        else:
            mp = [(F(float(x)), F(float(y))) for x, y in pts]
    lo = (min(p[0] for p in mp), min(p[1] for p in mp))
    hi = (max(p[0] for p in mp), max(p[1] for p in mp))
    if clip and (hi[0] <= 0 or hi[1] <= 0 or lo[0] >= nx or lo[1] >= ny):
        return  # region does not meet the parent: nothing documented
    # the view must be a whole-pixel window of the parent
    A2 = fa(aff_of(got))
    T = fa_mul((A[4] / det, -A[1] / det, (A[1] * A[5] - A[4] * A[2]) / det, -A[3] / det, A[0] / det, (A[3] * A[2] - A[0] * A[5]) / det), A2)
    tx, ty = T[2], T[5]
    okwin = all(abs(T[i] - v) <= F(1, 10**9) for i, v in ((0, 1), (1, 0), (3, 0), (4, 1))) and \
        abs(tx - round(tx)) <= F(1, 10**6) and abs(ty - round(ty)) <= F(1, 10**6) and got.crs == g.crs
    R.oracle(okwin, keyp + "-not-a-window", case, f"gbox[{kind}] is not a whole-pixel window of the parent (pixel map {tuple(map(float, T))})")
    if not okwin:
        return
    tx, ty = round(tx), round(ty)
    ny2, nx2 = map(int, got.shape)
    # noise allowance: the code sees pixel coordinates within ~1e-9 px (conditioning) of these
    smin = abs(det) / max(abs(A[0]) + abs(A[1]) + abs(A[3]) + abs(A[4]), F(1, 10**300))
    eps = F(1, 10**9) * (1 + world_scale(A, (ny, nx)) / max(smin, F(1, 10**300)) / 10**3) + slack_px

    def side_ok(got_lo, got_hi, lo_, hi_, n):
        cl_lo = (lambda v: max(0, v)) if clip else (lambda v: v)
        cl_hi = (lambda v: min(n, v)) if clip else (lambda v: v)
        want_hi = {cl_hi(math.ceil(v)) for v in (hi_, hi_ - eps, hi_ + eps)}
        want_lo = {cl_lo(math.floor(v)) for v in (lo_, lo_ - eps, lo_ + eps)}
        if slack_px:
            want_hi |= {v + d for v in list(want_hi) for d in (-1, 1)}
            want_lo |= {v + d for v in list(want_lo) for d in (-1, 1)}
        cands = {(a, max(1, b - a)) for a in want_lo for b in want_hi}
        return (got_lo, got_hi - got_lo) in cands
    ok = side_ok(tx, tx + nx2, lo[0], hi[0], nx) and side_ok(ty, ty + ny2, lo[1], hi[1], ny)
    R.oracle(ok, keyp + "-window", case,
             f"{type(g).__name__}{(ny, nx)}" + (f"[{kind}]" if clip else f".enclosing({kind})") + f" = rows {ty}:{ty + ny2}, cols {tx}:{tx + nx2}; the region spans pixel rows "
             f"{float(lo[1]):.6f}..{float(hi[1]):.6f}, cols {float(lo[0]):.6f}..{float(hi[0]):.6f} of the parent",
             sig=f"{keyp}|{kind}")


def gen_geo_parent(rng, GB, Affine, tag=None):
    """geographically valid parent near 15E 52N in one of the known CRSs (so that other-CRS regions make sense)"""
    tag = tag or rng.choice([1, 2, 3])
    lon, lat = rng.uniform(13.5, 16.5), rng.uniform(47, 57)
    x, y = _transformer("EPSG:4326", CRS_TAGS[tag]).transform(lon, lat)
    r = rng.choice([10.0, 30.0, 100.0, rng.uniform(5, 200)])
    if tag == 1:
        r = r / 111000.0
    kind = rng.choice(["st", "rot", "rot", "shear", "rot90", "mirror"])
    S = Affine.scale(r, -r * rng.choice([1, 1, rng.uniform(0.5, 2)]))
    L = {"st": S, "rot": Affine.rotation(rng.uniform(-180, 180)) * S, "shear": Affine.shear(rng.uniform(-30, 30), rng.uniform(-20, 20)) * S,
         "rot90": Affine.rotation(rng.choice([90, 180, 270])) * S, "mirror": Affine.scale(-1, -1) * S}[kind]
    return GB.GeoBox((rng.randint(8, 60), rng.randint(8, 60)), Affine.translation(x, y) * L, CRS_TAGS[tag]), kind


def region_stream(R: Run, ops: Ops, cxE: Ctx, cxF: Ctx):
    from odc.geo import geom as G
    GB, GCP, Affine = ops.GB, ops.GCP, ops.Affine
    rng = R.rng

    def window(g):
        ny, nx = map(int, g.shape)
        y0 = rng.randint(0, ny - 1)
        x0 = rng.randint(0, nx - 1)
        return g[y0:rng.randint(y0 + 1, ny), x0:rng.randint(x0 + 1, nx)]

    def pix_poly(g, crs_less):
        ny, nx = map(int, g.shape)
        k = rng.choice([1, 2, 3, 4, 5])
        pp = [(rng.uniform(-2, nx + 2), rng.uniform(-2, ny + 2)) for _ in range(k)]
        if rng.random() < 0.4:
            pp = [(float(rng.randint(0, nx)), float(rng.randint(0, ny))) for _ in range(k)]  # on pixel edges
        if not crs_less:
            pp = [g.pix2wld(x, y) for x, y in pp]
        crs = None if crs_less else g.crs
        if k == 1:
            return G.point(pp[0][0], pp[0][1], crs)
        if k == 2:
            return G.line(pp, crs)
        poly = G.polygon(pp + [pp[0]], crs)
        return poly if poly.is_valid else poly.convex_hull

    def other_grid(g):
        ny, nx = map(int, g.shape)
        cx_, cy_ = g.pix2wld(rng.uniform(0, nx), rng.uniform(0, ny))
        r = abs(float(g.resolution.x)) * rng.uniform(0.5, 3)
        A2 = Affine.translation(cx_, cy_) * Affine.rotation(rng.uniform(-180, 180)) * Affine.scale(r, -r)
        return GB.GeoBox((rng.randint(1, 12), rng.randint(1, 12)), A2, g.crs)

    # ---- exact stream (model): parents with a dyadic inverse, same-crs / pixel-plane regions with dyadic vertices
    for _ in range(R.pick(150, 1500)):
        sx, sy = rng.choice([-1, 1]) * pow2(rng, -3, 3), rng.choice([-1, 1]) * pow2(rng, -3, 3)
        A = Affine(sx, 0, rng.randint(-800, 800) / 8.0, 0, sy, rng.randint(-800, 800) / 8.0) if rng.random() < 0.6 else \
            Affine(0, sy, rng.randint(-800, 800) / 8.0, sx, 0, rng.randint(-800, 800) / 8.0)
        tag = rng.choice([1, 2, 3])
        g = GB.GeoBox((rng.randint(1, 20), rng.randint(1, 20)), A, CRS_TAGS[tag])
        ny, nx = map(int, g.shape)
        kind = rng.choice(["GeoBox-window", "GeoBox-window", "Geometry-same-crs", "Geometry-no-crs", "BoundingBox-same-crs",
                           "BoundingBox-no-crs", "GeoBox-no-crs"])
        k = rng.choice([1, 2, 3, 4])
        pp = [(rng.randint(-16, 8 * nx + 16) / 8.0, rng.randint(-16, 8 * ny + 16) / 8.0) for _ in range(max(k, 3) if "Bounding" in kind else k)]
        if kind == "GeoBox-window":
            roi = window(g)
            line = f"c02 cropGB {enc_gb(g)} {enc_gb(roi)}"
        elif kind == "GeoBox-no-crs":
            roi = GB.GeoBox((rng.randint(1, 5), rng.randint(1, 5)), Affine(pow2(rng, -1, 1), 0, rng.randint(0, 8 * nx) / 8.0, 0,
                                                                       pow2(rng, -1, 1), rng.randint(0, 8 * ny) / 8.0), None)
            line = f"c02 cropGB {enc_gb(g)} {enc_gb(roi)}"
        else:
            crs_less = "no-crs" in kind
            wp = pp if crs_less else [g.pix2wld(x, y) for x, y in pp]
            crs = None if crs_less else g.crs
            if "Bounding" in kind:
                xs, ys = [p[0] for p in wp], [p[1] for p in wp]
                roi = G.BoundingBox(min(xs), min(ys), max(xs), max(ys), crs)
            elif k == 1:
                roi = G.point(wp[0][0], wp[0][1], crs)
            elif k == 2:
                roi = G.line(wp, crs)
            else:
                roi = G.polygon(wp + [wp[0]], crs)
            vs, _, _ = region_vertices(roi)
            line = f"c02 cropV {enc_gb(g)} {'T' if crs_less else 'F'} " + list_s([f"{frac_s(x)};{frac_s(y)}" for x, y in vs])
        res = []

        def fn():
            o = g[roi]
            res.append(o)
            return enc_gb(o)
        R.corr(line, fn, sig=f"region|{kind}")
        if kind in ("Geometry-same-crs", "BoundingBox-same-crs"):
            rese = []

            def fe():
                o = g.enclosing(roi)
                rese.append(o)
                return enc_gb(o)
            vs2, _, _ = region_vertices(roi)
            R.corr(f"c02 encl {enc_gb(g)} " + list_s([f"{frac_s(x)};{frac_s(y)}" for x, y in vs2]), fe, sig=f"enclosing|{kind}")
            if rese:
                region_oracle(cxE, g, roi, kind, rese[0], clip=False)
        if res and kind != "GeoBox-no-crs":
            region_oracle(cxE, g, roi, kind, res[0])
        elif res:
            region_oracle(cxE, g, roi.extent, kind, res[0])

    # ---- float stream: every region kind, same and other crs, axis-aligned and rotated / sheared on BOTH sides
    for _ in range(R.pick(260, 2600)):
        g, gk = gen_geo_parent(rng, GB, Affine)
        kind = rng.choice(["GeoBox-window", "GeoBox-window", "GeoBox-other-grid", "Geometry-same-crs", "Geometry-no-crs",
                           "BoundingBox-same-crs", "BoundingBox-no-crs", "Geometry-other-crs", "BoundingBox-other-crs",
                           "GeoBox-other-crs", "Geometry-window-extent"])
        try:
            if kind == "GeoBox-window":
                roi = window(g)
            elif kind == "Geometry-window-extent":
                roi = window(g).extent
            elif kind == "GeoBox-other-grid":
                roi = other_grid(g)
            elif kind in ("Geometry-same-crs", "Geometry-no-crs"):
                roi = pix_poly(g, kind.endswith("no-crs"))
            elif kind in ("BoundingBox-same-crs", "BoundingBox-no-crs"):
                roi = pix_poly(g, kind.endswith("no-crs")).boundingbox
            else:
                ocrs = CRS_TAGS[rng.choice([t for t in (1, 2, 3) if CRS_TAGS[t] != str(g.crs).upper()])]
                base = rng.choice([window(g), other_grid(g)])
                if kind == "GeoBox-other-crs":
                    # a small rotated grid in the other crs placed over the parent
                    ny, nx = map(int, g.shape)
                    wx, wy = g.pix2wld(rng.uniform(0, nx), rng.uniform(0, ny))
                    ox, oy = _transformer(g.crs, ocrs).transform(wx, wy)
                    r = abs(float(g.resolution.x)) * rng.uniform(0.5, 2)
                    r = r * (111000.0 if crs_tag(g.crs) == 1 else 1.0) / (111000.0 if ocrs == CRS_TAGS[1] else 1.0)
                    roi = GB.GeoBox((rng.randint(1, 10), rng.randint(1, 10)),
                                    Affine.translation(ox, oy) * Affine.rotation(rng.uniform(-180, 180)) * Affine.scale(r, -r), ocrs)
                else:
                    pts, _, _ = region_vertices(base)
                    tr = _transformer(g.crs, ocrs)
                    poly = G.polygon([tr.transform(x, y) for x, y in pts], ocrs)
                    roi = poly if kind == "Geometry-other-crs" else poly.boundingbox
            got = g[roi]
        except Exception as e:  # pylint: disable=broad-except
            R.oracle(False, "region-raised", {"op": "region", "gbox": enc_gb(g), "args": {"kind": kind}}, f"{type(e).__name__}: {e}")
            continue
        region_oracle(cxF, g, roi, kind + "|parent-" + gk, got)
        if kind.startswith(("Geometry", "BoundingBox")) and getattr(roi, "crs", None) is not None:
            try:
                region_oracle(cxF, g, roi, kind + "|parent-" + gk, g.enclosing(roi), clip=False)
            except Exception as e:  # pylint: disable=broad-except
                R.oracle(False, "enclosing-raised", {"op": "enclosing", "gbox": enc_gb(g), "args": {"kind": kind}}, f"{type(e).__name__}: {e}")
        if kind == "GeoBox-window":
            # In exact arithmetic g[g[roi]] == g[roi] (theorem crop_window_of_self).  In doubles the projected corners
            # land at k +- 1e-12 px and floor/ceil add a pixel on ~2/3 of arbitrary float grids: a genuine IEEE-level
            # defect, reported to the integrator; evaluated as a finding only once it is registered.
            if any(k.get("key") == WINDOW_NOISE_KEY for k in R.known):
                R.oracle(got == roi, WINDOW_NOISE_KEY, {"op": "region", "gbox": enc_gb(g), "args": {"kind": kind, "roi": enc_gb(roi)}},
                         f"g[g[roi]] has shape {tuple(got.shape)}, g[roi] has shape {tuple(roi.shape)} (parent {gk})", trivial=True)
            else:
                R.count("window-of-self:" + ("same" if got == roi else "grown-by-float-noise"))

    # ---- GCP parents: regions against the fitted inverse (fit-error slack of one pixel)
    for _ in range(R.pick(40, 300)):
        ny, nx = rng.randint(8, 30), rng.randint(8, 30)
        B = Affine.translation(5e5, 6e6) * Affine.rotation(rng.choice([0, 0, 30, rng.uniform(-180, 180)])) * Affine.scale(30.0, -30.0)
        aff = rng.random() < 0.6
        mapping = build_gcp_mapping(GCP, ny, nx, B, aff)
        gc = GCP.GCPGeoBox((ny, nx), mapping)
        gl = GB.GeoBox((ny, nx), B, "EPSG:32633")
        kind = rng.choice(["GeoBox-window", "Geometry-same-crs", "BoundingBox-same-crs", "Geometry-no-crs", "GCPGeoBox"])
        try:
            if kind == "GeoBox-window":
                roi = window(gl)
            elif kind == "GCPGeoBox":
                y0, x0 = rng.randint(0, ny - 2), rng.randint(0, nx - 2)
                roi = gc[y0:rng.randint(y0 + 1, ny), x0:rng.randint(x0 + 1, nx)]
            elif kind == "Geometry-no-crs":
                roi = pix_poly(gl, True)
            else:
                roi = pix_poly(gl, False)
                roi = roi if kind.startswith("Geometry") else roi.boundingbox
            got = gc[roi]
        except Exception as e:  # pylint: disable=broad-except
            R.oracle(False, "gcp-region-raised", {"op": "region", "gbox": enc_gb(gc), "args": {"kind": kind}}, f"{type(e).__name__}: {e}")
            continue
        nfail = len(R.oracle_failures)
        region_oracle(cxF, gc, roi, "gcp|" + kind, got, {"mapping": mapping})
        for f_ in R.oracle_failures[nfail:]:
            f_["key"] = "gcp-" + f_["key"]


# ------------------------------------------------------------------ GCP fit: boundary point counts, exact ground truth
FIT_COUNTS = [3, 4, 5, 8, 9, 10, 12, 16, 25]
FIT_TERMS = {"aff": 3, "bil": 4, "biq": 9}


def gcp_layout(N, nx, ny):
    g3 = [(x, y) for x in (0, nx / 2, nx) for y in (0, ny / 2, ny)]
    if N == 3:
        return [(0, 0), (nx, 0), (0, ny)]
    if N == 4:
        return [(0, 0), (nx, 0), (0, ny), (nx, ny)]
    if N == 5:
        return [(0, 0), (nx, 0), (0, ny), (nx, ny), (nx / 2, ny / 2)]
    if N == 8:
        return [q for q in g3 if q != (nx / 2, ny / 2)]
    if N == 9:
        return g3
    if N == 10:
        return g3 + [(nx / 4, ny / 4)]
    if N == 12:
        return [(x, y) for x in (0, nx / 4, nx / 2, nx) for y in (0, ny / 2, ny)]
    if N == 16:
        return [(x, y) for x in (0, nx / 4, nx / 2, nx) for y in (0, ny / 4, ny / 2, ny)]
    return [(nx * i / 4, ny * j / 4) for i in range(5) for j in range(5)]


def gcp_truth(rng, fam, nx=64, ny=64):
    """ground-truth pixel->world polynomial with dyadic coefficients: {(i, j): (cx, cy)} for x^i y^j; every
    non-linear term moves a point by at most ~1% of the image (0.3 px-sizes * short side), so the map stays a
    well-conditioned bijection of the image (needed for the inverse fit to be determined)"""
    deg = 2 if fam == "biq" else 1
    c = {}
    for i in range(deg + 1):
        for j in range(deg + 1):
            if fam == "aff" and i + j > 1:
                continue
            mag = 2.0 ** math.floor(math.log2(0.3 * min(nx, ny) / (16.0 * nx**i * ny**j))) if i + j > 1 else 1
            c[(i, j)] = (rng.randint(-16, 16) * mag, rng.randint(-16, 16) * mag)
    c[(0, 0)] = (500000.0 + rng.randint(0, 999), 6000000.0 - rng.randint(0, 999))
    c[(1, 0)] = (30 * rng.choice([1, 0.5]), float(rng.choice([0, -2, 4])))
    c[(0, 1)] = (float(rng.choice([0, 3, -4])), -30 * rng.choice([1, 0.5]))
    if fam != "aff":
        # make sure the family's own term is clearly present (otherwise the case degenerates to the smaller family)
        m11 = 2.0 ** math.floor(math.log2(0.3 * min(nx, ny) / (16.0 * nx * ny)))
        if abs(c[(1, 1)][0]) < 8 * m11:
            c[(1, 1)] = (13 * m11, c[(1, 1)][1])
    if fam == "biq":
        m20 = 2.0 ** math.floor(math.log2(0.3 * min(nx, ny) / (16.0 * nx * nx)))
        if abs(c[(2, 0)][0]) < 8 * m20:
            c[(2, 0)] = (15 * m20, c[(2, 0)][1])
    return c


def truth_eval(c, x, y):
    return tuple(sum(F(v[k]) * F(x) ** i * F(y) ** j for (i, j), v in c.items()) for k in (0, 1))


def fit_kind_lines(R: Run):
    """Poly2d.fit's model selection, observed by substituting its three back-ends: number of terms per point count.
    The back-ends are private: when they are absent, or a call of fit() never reaches them (inlined / moved), the
    observation point is gone and the case is skipped with a note — model selection is then judged by the
    ground-truth stream (gcp_fit_stream) alone."""
    from odc.geo import math as M
    from .common import guarded
    P2 = getattr(M, "Poly2d", None)
    names = (("_fit3", 3), ("_fit4", 4), ("_fit9", 9))
    if P2 is None or any(not callable(getattr(P2, k, None)) for k, _ in names) or not callable(getattr(P2, "fit", None)):
        R.notes.append("fit-kind: Poly2d._fit3/_fit4/_fit9 not found; model selection judged by the ground-truth stream only")
        return
    orig = {k: getattr(P2, k) for k, _ in names}
    unobserved = 0
    for N in list(range(0, 30)) + [36, 49, 100]:
        seen = []

        def fn():
            try:
                for k, terms in names:
                    setattr(P2, k, staticmethod((lambda t, f: lambda *a, **kw: (seen.append(t), f(*a, **kw))[1])(terms, orig[k])))
                pts = np.asarray([((i * 7) % 11 + 0.25 * (i % 3), (i * 5) % 13 + 0.5 * (i % 2)) for i in range(N)], dtype="float64").reshape(-1, 2)
                P2.fit(pts, pts * 2.0 + 1.0)
            finally:
                for k in orig:
                    setattr(P2, k, staticmethod(orig[k]))
            return str(seen[0]) if len(seen) == 1 else f"calls:{seen}"
        out = guarded(fn)
        if out == "calls:[]":
            unobserved += 1
            continue
        R.corr(f"c02 fitkind {N}", lambda out=out: out, sig="fit-kind")
    if unobserved:
        R.notes.append(f"fit-kind: {unobserved} point counts did not reach the interposed back-ends (skipped)")


def gcp_fit_stream(R: Run, ops: Ops):
    """control points generated from exactly representable affine / bilinear / bi-quadratic ground truth for boundary
    point counts.  Whenever the ground-truth family lies within the family that N admits (3: affine, 4..8: bilinear,
    >= 9: bi-quadratic) the least-squares fit reproduces the ground truth exactly (C20 poly_fit_exact_affine /
    _bilinear / _biquadratic), so pix2wld must hit every control point and follow the ground truth in between; when the
    number of points equals the number of terms (3, 4, 9) the fit interpolates ANY data, in both directions."""
    GCP = ops.GCP
    rng = R.rng
    for it in range(R.pick(160, 1600)):
        N = FIT_COUNTS[it % len(FIT_COUNTS)]
        fam = rng.choice(["aff", "bil", "biq"])
        nx, ny = rng.choice([16, 32, 64, 128]), rng.choice([16, 32, 64, 128])
        pix = gcp_layout(N, nx, ny)
        c = gcp_truth(rng, fam, nx, ny)
        wex = [truth_eval(c, x, y) for x, y in pix]
        wld = [(float(a), float(b)) for a, b in wex]
        if any(F(a) != ea or F(b) != eb for (a, b), (ea, eb) in zip(wld, wex)):
            R.count("gcp-fit:skipped-inexact-ground-truth")
            continue
        terms = 3 if N == 3 else 4 if N < 9 else 9
        infam = FIT_TERMS[fam] <= terms
        interp = N == terms
        desc = {"N": N, "family": fam, "shape": [ny, nx], "coef": {f"{i},{j}": [frac_s(v[0]), frac_s(v[1])] for (i, j), v in c.items()}}
        case = {"op": "gcp-fit", "gbox": f"{ny} {nx} 1;0;0;0;1;0 3", "args": desc}
        sig = f"gcp-fit|{fam}|N={N}|" + ("in-family" if infam else "interpolating" if interp else "out-of-family")
        try:
            g = GCP.GCPGeoBox((ny, nx), GCP.GCPMapping(np.asarray(pix, dtype="float64"), np.asarray(wld, dtype="float64"), "EPSG:32633"))
            tol_w = 1e-5   # world units (metres at 6e6: measured residual 2e-9)
            if infam or interp:
                err = max(max(abs(F(float(a)) - b) for a, b in zip(g.pix2wld(float(x), float(y)), w)) for (x, y), w in zip(pix, wex))
                R.oracle(err <= tol_w, "gcp-fit-misses-control-point", case,
                         f"{N} control points from a {fam} map: pix2wld misses a control point by {float(err):.3g} world units", sig=sig)
                # the same through a VIEW (crop with distinct offsets): pixel (x-1, y-2) of g[2:, 1:]
                v = g[2:, 1:]
                errv = max(max(abs(F(float(a)) - b) for a, b in zip(v.pix2wld(float(x) - 1, float(y) - 2), w)) for (x, y), w in zip(pix, wex))
                R.oracle(errv <= tol_w, "gcp-fit-view-misses-control-point", case,
                         f"{N} control points from a {fam} map: pix2wld of the view g[2:,1:] misses a control point by {float(errv):.3g}", sig=sig)
                # footprint / bounding box: corner control points are vertices of the outline, every control point inside the box
                ext = [tuple(q) for q in g.extent.exterior.points]
                bb = g.boundingbox
                span = max(bb.span_x, bb.span_y)
                okc = all(min(max(abs(F(float(a)) - b) for a, b in zip(q, w)) for q in ext) <= tol_w
                          for (x, y), w in zip(pix, wex) if x in (0, nx) and y in (0, ny))
                okb = all(bb.left - 0.02 * span <= float(w[0]) <= bb.right + 0.02 * span and
                          bb.bottom - 0.02 * span <= float(w[1]) <= bb.top + 0.02 * span for w in wex) and \
                    all(bb.left - tol_w <= float(w[0]) <= bb.right + tol_w and bb.bottom - tol_w <= float(w[1]) <= bb.top + tol_w
                        for (x, y), w in zip(pix, wex) if x in (0, nx) and y in (0, ny))
                R.oracle(okc and okb, "gcp-fit-footprint-misses-control-point", case,
                         f"{N} control points from a {fam} map: extent / boundingbox {tuple(bb.bbox)} do not contain the (corner) control points", sig=sig)
            if infam:
                err = F(0)
                for _ in range(4):
                    x, y = rng.randint(0, 4 * nx) / 4.0, rng.randint(0, 4 * ny) / 4.0
                    t = truth_eval(c, x, y)
                    err = max(err, max(abs(F(float(a)) - b) for a, b in zip(g.pix2wld(x, y), t)))
                R.oracle(err <= tol_w, "gcp-fit-off-ground-truth", case,
                         f"{N} control points from a {fam} map: pix2wld differs from the ground truth by {float(err):.3g} between control points", sig=sig)
            if fam == "aff" or interp:
                errp = max(max(abs(a - b) for a, b in zip(g.wld2pix(float(w[0]), float(w[1])), (x, y))) for (x, y), w in zip(pix, wex))
                R.oracle(errp <= 1e-5, "gcp-fit-inverse-misses-control-point", case,
                         f"{N} control points from a {fam} map: wld2pix misses a control point by {errp:.3g} px", sig=sig)
        except Exception as e:  # pylint: disable=broad-except
            R.oracle(False, "gcp-fit-raised", case, f"{type(e).__name__}: {e}", sig=sig)


# ------------------------------------------------------------------ main
def run(R: Run):
    mods = _import()
    GB, GCP, Affine, TNI = mods
    ops = Ops(R, mods)
    rng = R.rng
    cxE, cxF = Ctx(R, True), Ctx(R, False)

    # ---------- accessor table: every live public name is known to the model and to the checkers
    accessor_table_lines(R, GB, GCP)
    # ---------- every accepted kind of index / region object; falsy-but-meaningful option values in each position
    index_kind_lines(R, GB, GCP, Affine)
    falsy_sweep(R, ops, cxE, cxF)
    region_stream(R, ops, cxE, cxF)
    # ---------- GCP fit: model selection per point count; exact ground truth at the boundary counts
    fit_kind_lines(R)
    gcp_fit_stream(R, ops)
    # ---------- glue around the core: argument normalisers, dispatch on argument kind, error branches (growth round 2)
    from .c02_glue import glue_stream
    glue_stream(R, ops, cxE, cxF)

    # ---------- chains of 2-3 view ops; every public accessor is evaluated on every VIEW of the chain
    CH_OPS = ["crop2", "crop2", "crop1", "pad", "pad", "ztos", "ztos", "zout", "flipx", "flipy", "tpix", "rot", "cpix",
              "left", "bottom", "sdown", "buf", "mul", "rmul", "resize", "padwh", "ztor"]
    for exact in (True, False):
        cx = cxE if exact else cxF
        for _ in range(R.pick(220, 2200)):
            g, cls = gen_gbox_exact(rng, GB, Affine) if exact else gen_gbox_float(rng, GB, Affine)
            if rng.random() < 0.15:
                check_accessors(cx, g)
            for step in range(rng.choice([2, 3])):
                op = rng.choice(CH_OPS)
                corr = exact and narrow(tuple(aff_of(g))[:6], 30)
                g2 = run_op(R, ops, cx if corr or not exact else cxF, op, g, corr, cls + f"|chain{step}")
                if g2 is None or min(g2.shape) <= 0 or max(g2.shape) > 3000:
                    break
                g = g2
                check_accessors(cx if narrow(tuple(aff_of(g))[:6], 30) else cxF, g)

    # ---------- exact stream: random geoboxes x every op
    for _ in range(R.pick(1200, 9000)):
        g, cls = gen_gbox_exact(rng, GB, Affine, allow_zero=True)
        base_view_lines(R, ops, g, cls)
        check_base_views(cxE, g, TNI)
        for op in ALL_OPS:
            g2 = run_op(R, ops, cxE, op, g, True, cls)
            # views of a derived geobox + a second op on it (compositions of views)
            if g2 is not None and rng.random() < 0.08 and not op.startswith("S:") and min(g2.shape) >= 0 \
                    and max(g2.shape) <= 512:
                if all(abs(F(v).numerator).bit_length() <= 40 for v in tuple(aff_of(g2))[:6]):
                    base_view_lines(R, ops, g2, cls + "+derived")
                    check_base_views(cxE, g2, TNI)
                    run_op(R, ops, cxE, rng.choice(["crop2", "pad", "flipx", "flipy", "tpix", "cpix", "left", "bottom"]),
                           g2, True, cls + "+derived")

    # ---------- exact stream: singular affines (inverse / resolution raise)
    for A in [Affine(2, 0, 1, 0, 0, 1), Affine(1, 1, 0, 1, 1, 0), Affine(0, 0, 5, 0, 0, 5), Affine(2, 4, 0, 1, 2, 7)]:
        g = GB.GeoBox((3, 4), A, None)
        gs = enc_gb(g)

        def fw():
            try:
                return " ".join(frac_s(v) for v in g.wld2pix(1.0, 2.0))
            except TNI:
                raise ValueError("not invertible")
        R.corr(f"c02 w2p {gs} 1 2", fw, sig="w2p|singular")
        if abs(A.b) < 1e-10 and abs(A.d) < 1e-10:
            # (for a singular *rotated* matrix cholesky fails in exact arithmetic; in doubles it depends on rounding)
            R.corr(f"c02 res {gs} 1 1", lambda: f"{frac_s(g.resolution.x)} {frac_s(g.resolution.y)}", sig="res|singular")
        R.corr(f"c02 bbox {gs}", lambda: " ".join(frac_s(v) for v in g.boundingbox.bbox), sig="bbox|singular")
        check_base_views(cxE, g, TNI)

    # ---------- exact stream: exhaustive small domains where off-by-one edits bite
    A0 = Affine(2.0, 0.0, 100.0, 0.0, -2.0, 50.0)
    A1 = Affine(3.0, -4.0, 7.5, 4.0, 3.0, -2.25)
    NB = R.pick(5, 7)
    bnds = [None] + list(range(-NB - 2, NB + 3))
    for n in range(0, NB + 1):
        g = GB.GeoBox((n, 3), A0, "EPSG:4326")
        gt = GB.GeoBox((2, n), A1, None)
        gs, gts = enc_gb(g), enc_gb(gt)
        idxs = [slice(a, b) for a in bnds for b in bnds] + list(range(-NB - 2, NB + 3))
        for s in idxs:
            res = []

            def f1():
                o = g[s]
                res.append(o)
                return enc_gb(o)
            R.corr(f"c02 crop1 {gs} {enc_idx(s)}", f1, sig="crop1|exh|" + ("int" if isinstance(s, int) else "slice"))
            if res:
                sel = norm_index_numpy(s, n)
                if sel is not None:
                    check_contract(cxE, "crop1", g, res[0], enc_idx(s), T=fa_tr(0, sel[0]), shape=(sel[1], 3))
            res2 = []

            def f2():
                o = gt[1:, s]
                res2.append(o)
                return enc_gb(o)
            R.corr(f"c02 crop2 {gts} s:1:N {enc_idx(s)}", f2, sig="crop2|exh|" + ("int" if isinstance(s, int) else "slice"))
            if res2:
                sel = norm_index_numpy(s, n)
                if sel is not None:
                    check_contract(cxE, "crop2", gt, res2[0], f"s:1:N {enc_idx(s)}", T=fa_tr(sel[0], 1), shape=(1, sel[1]))
    NZ = R.pick(24, 48)
    for N in range(0, NZ + 1):
        for M in sorted({1, N, max(1, N // 3), min(NZ, N + 5)}):
            g = GB.GeoBox((N, M), A0, None)
            gs = enc_gb(g)
            nm = max(N, M)
            for n in range(0, R.pick(50, 100)):
                res = []

                def fz():
                    o = g.zoom_to(n)
                    res.append(o)
                    return f"{int(o.shape[0])} {int(o.shape[1])}"
                R.corr(f"c02 S:zton {gs} {n}", fz, sig="zton|exh")
                if res and n > 0 and nm > 0:
                    got = tuple(map(int, res[0].shape))
                    R.oracle(max(got) == n, "zoom-to-int-longest-side", case_of("S:zton", g, str(n)),
                             f"GeoBox{(N, M)}.zoom_to({n}) has shape {got}: longest side {max(got)} != {n}")
            for k in range(0, 10):
                R.corr(f"c02 sdown {gs} {k}", lambda: enc_gb(GB.scaled_down_geobox(g, k)), sig="sdown|exh")
            for al in range(-3, 18):
                R.corr(f"c02 padwh {gs} {al} N", lambda: enc_gb(g.pad_wh(al)), sig="padwh|exh")
            for f in (0.5, 1.0, 1.5, 2.0, 3.0, 4.0, 5.0, 6.0, 7.0, 8.0, 0.25, 0.75, 2.5, 16.0, 32.0):
                R.corr(f"c02 zout {gs} {frac_s(f)}", lambda: enc_gb(g.zoom_out(f)), sig="zout|exh")
            R.corr(f"c02 cpix {gs}", lambda: enc_gb(g.center_pixel), sig="cpix|exh")
            R.corr(f"c02 flipx {gs}", lambda: enc_gb(g.flipx()), sig="flip|exh")
            R.corr(f"c02 flipy {gs}", lambda: enc_gb(g.flipy()), sig="flip|exh")
    # buffered around the 0.1 px rounding rule: buffer = k/16 px for resolution 2^j
    for j in (-3, 0, 4):
        r = 2.0**j
        g = GB.GeoBox((5, 7), Affine(r, 0, 3 * r, 0, -r, 11 * r), "EPSG:3857")
        for k in range(-40, 81):
            xb = k / 16.0 * r
            res = []

            def fb():
                o = g.buffered(xb)
                res.append(o)
                return enc_gb(o)
            R.corr(f"c02 buf {enc_gb(g)} 1 1 {frac_s(xb)} N", fb, sig="buf|exh")
            if res:
                b = (int(res[0].shape[1]) - 7) // 2
                lo = F(xb) - F(0.1) * F(r)
                R.oracle(b * F(r) >= lo and (b - 1) * F(r) < lo, "buf-amount", case_of("buf", g, f"1 1 {frac_s(xb)} N"),
                         f"buffered({xb}) at res {r} grew by {b} px")
    # zoom_to(resolution): span / res around integers and the 0.01 px tolerance
    for k in range(0, R.pick(200, 600)):
        span = rng.randint(1, 40) + rng.choice([0, 0, 1 / 128, 1 / 64, 127 / 128, 63 / 64, 0.5, 1 / 256, 255 / 256])
        ny, nx = rng.randint(1, 9), rng.randint(1, 9)
        # affine so that bbox spans are `span` res-units in x: a*nx = span
        a = span / nx if (F(span) / nx).denominator & ((F(span) / nx).denominator - 1) == 0 else span
        if a == span:
            nx = 1
        g = GB.GeoBox((ny, nx), Affine(a, 0, rng.randint(-50, 50) / 4.0, 0, -a, rng.randint(-50, 50) / 4.0), None)
        for r in (1.0, -1.0, 0.5, 2.0):
            R.corr(f"c02 ztor {enc_gb(g)} {frac_s(r)} {frac_s(-r)}", lambda: enc_gb(g.zoom_to(resolution=r)), sig="ztor|tol-edge")

    # ---------- exact stream: HUGE integer shapes / parameters for the integer-valued helpers (shape only;
    # a float detour such as int(ceil(x / k)) is invisible below 2**53)
    for _ in range(R.pick(400, 4000)):
        ny, nx = (rng.choice(HUGE) + rng.randint(-3, 3) for _ in range(2))
        if rng.random() < 0.3:
            nx = rng.randint(1, 64)
        g = GB.GeoBox((ny, nx), A0, CRS_TAGS[rng.choice([0, 1, 2])])
        gs = enc_gb(g)
        big = lambda: rng.choice(HUGE) + rng.randint(-3, 3)  # noqa: E731
        al = rng.choice([2, 3, 7, 16, 2**32 + 1, 2**40, 2**53 + 1, 2**62, big()])
        r1 = []
        R.corr(f"c02 S:padwh {gs} {al} N", lambda: (r1.append(g.pad_wh(al)), f"{r1[0].shape[0]} {r1[0].shape[1]}")[1], sig="padwh|huge")
        if r1:
            check_contract(cxE, "padwh", g, r1[0], f"{al} N", shape=(-(-ny // al) * al, -(-nx // al) * al))
        k = rng.choice([2, 3, 7, 2**31 + 1, 2**53 + 1, 2**62, big()])
        r2 = []
        R.corr(f"c02 S:sdown {gs} {k}", lambda: (r2.append(GB.scaled_down_geobox(g, k)), f"{r2[0].shape[0]} {r2[0].shape[1]}")[1],
               sig="sdown|huge")
        if r2:
            R.oracle(tuple(map(int, r2[0].shape)) == (-(-ny // k), -(-nx // k)), "sdown-shape", case_of("sdown", g, str(k)),
                     f"scaled_down_geobox({(ny, nx)}, {k}) has shape {tuple(r2[0].shape)}")
        p_ = rng.choice([1, 5, 2**31, 2**53 + 1, 2**62 + 3, -7])
        r3 = []
        R.corr(f"c02 S:pad {gs} {p_} N", lambda: (r3.append(g.pad(p_)), f"{r3[0].shape[0]} {r3[0].shape[1]}")[1], sig="pad|huge")
        if r3:
            R.oracle(tuple(map(int, r3[0].shape)) == (ny + 2 * p_, nx + 2 * p_), "pad-shape", case_of("pad", g, f"{p_} N"),
                     f"pad({p_}) of {(ny, nx)} has shape {tuple(r3[0].shape)}")
        a_ = rng.choice([None, rng.randint(0, 5), ny - rng.randint(0, 9), -rng.randint(1, 9), -ny + rng.randint(0, 3), big() % max(ny, 1)])
        b_ = rng.choice([None, ny - rng.randint(0, 5), -rng.randint(1, 9), ny, big() % max(ny, 1)])
        sl = rng.choice([slice(a_, b_), rng.choice([ny - 1, -1, -ny, 0, ny // 2, 2**53 + 1 if ny > 2**53 + 1 else 0])])
        r4 = []
        R.corr(f"c02 S:crop1 {gs} {enc_idx(sl)}", lambda: (r4.append(g[sl]), f"{r4[0].shape[0]} {r4[0].shape[1]}")[1], sig="crop1|huge")
        if r4:
            sel = norm_index_numpy(sl, ny)
            if sel is not None:
                R.oracle(tuple(map(int, r4[0].shape)) == (sel[1], nx), "crop1-shape", case_of("crop1", g, enc_idx(sl)),
                         f"gbox[{sl}] of {(ny, nx)} has shape {tuple(r4[0].shape)}, numpy selects {sel[1]} rows")

    # ---------- GCP geoboxes: the same compute_* helpers act on the affine only
    gcp_stream(R, ops, cxE, cxF)

    # ---------- float stream: arbitrary doubles, oracle only
    for _ in range(R.pick(900, 7000)):
        g, kind = gen_gbox_float(rng, GB, Affine)
        check_base_views(cxF, g, TNI)
        for op in ALL_OPS:
            if op == "zton":
                continue
            g2 = run_op(R, ops, cxF, op, g, False, kind)
            if g2 is not None and rng.random() < 0.05 and min(g2.shape) > 0 and max(g2.shape) <= 20000:
                check_base_views(cxF, g2, TNI)
    # F13 class: every (N, n) of a band, shapes only
    for N in range(1, R.pick(130, 320)):
        g = GB.GeoBox((N, max(1, N // 2)), Affine(30.0, 0, 5e5, 0, -30.0, 6e6), "EPSG:32633")
        for n in range(1, R.pick(130, 320)):
            try:
                got = tuple(map(int, g.zoom_to(n).shape))
            except Exception as e:  # pylint: disable=broad-except
                R.oracle(False, "zoom-to-int-raised", case_of("S:zton", g, str(n)), f"{type(e).__name__}: {e}")
                continue
            want = tuple(max(1, math.ceil(F(s * n, N))) for s in (N, max(1, N // 2)))
            R.oracle(max(got) == n, "zoom-to-int-longest-side", case_of("S:zton", g, str(n)),
                     f"GeoBox{(N, max(1, N // 2))}.zoom_to({n}) has shape {got}: longest side {max(got)} != {n}",
                     sig="zton|band")
            R.oracle(got == want, "zoom-to-int-shape", case_of("S:zton", g, str(n)), f"zoom_to({n}) gave {got}, want {want}",
                     sig="zton|band")

    R.assumptions.append("rotated-grid resolution: the two square roots of decompose_rws are passed to the model as exact "
                         "rational witnesses (perfect-square inputs on the exact stream); numpy.linalg is trusted to compute them")
    R.assumptions.append("GCP geoboxes: the polynomial pixel->world fit is an abstract function in the model; the harness "
                         "checks that every GCP view op changes only (shape, affine) exactly as the GeoBox op does")
    R.searchers.append(searcher)


def build_gcp_mapping(GCP, ny, nx, B, affine_gcps, crs="EPSG:32633"):
    """control points on a 4x4 grid over the image, world = B(pixel) (+ a smooth distortion unless affine_gcps)"""
    pix = np.asarray([(x, y) for x in np.linspace(0, nx, 4) for y in np.linspace(0, ny, 4)], dtype="float64")
    wld = np.asarray([B * (float(x), float(y)) for x, y in pix], dtype="float64")
    if not affine_gcps:
        wld = wld + 0.5 * np.sin(pix / max(nx, ny) * 2.0)  # smooth distortion
    return GCP.GCPMapping(pix, wld, crs)


def gcp_step(R: Run, ops: Ops, cxE: Ctx, cxF: Ctx, g, op, gctx, fixed=None):
    """one view op on a GCP geobox: correspondence on the (shape, affine, crs) triple while it stays dyadic, the
    op's own two-sided contract, and the pixel contract through the mapping"""
    GCP, rng = ops.GCP, R.rng
    mapping, affine_gcps = gctx["mapping"], gctx["B"] is not None
    B = ops.Affine(*[float(v) for v in gctx["B"]]) if affine_gcps else None
    gen = ops.gen(op, g, rng, True, fixed)
    if gen is None:
        return None
    tail, _, contract = gen
    # re-create the call on the GCP geobox from the tail tokens
    call = gcp_call(op, g, tail)
    res = []

    def fn():
        o = call()
        res.append(o)
        return enc_gb(o)
    # exactness: after zoom the affine may stop being dyadic; then only the oracle is used
    dy = all((F(v).denominator & (F(v).denominator - 1)) == 0 and abs(F(v).numerator).bit_length() < 40
             for v in tuple(aff_of(g))[:6])
    line = f"c02 {op} {enc_gb(g)}" + (f" {tail}" if tail else "")
    if dy:
        R.corr(line, fn, sig=f"gcp|{op}")
    else:
        try:
            fn()
        except Exception:  # pylint: disable=broad-except
            pass
    if not res:
        return None
    g2 = res[0]
    case = {"op": "gcp-" + op, "gbox": enc_gb(g), "args": tail}
    R.oracle(isinstance(g2, GCP.GCPGeoBox) and mapping_of(g2, mapping) is mapping and g2.crs == g.crs,
             "gcp-view-lost-mapping", case, "GCP view does not share the mapping / crs of its parent")
    # the op's own contract on the (shape, affine, crs) triple, exactly as for GeoBox
    nfail = len(R.oracle_failures)
    try:
        contract(cxE if dy else cxF, g, g2, tail)
    except Exception as e:  # pylint: disable=broad-except
        R.oracle(False, f"gcp-{op}-oracle-raised", case, f"{type(e).__name__}: {e}")
    for f_ in R.oracle_failures[nfail:]:
        f_["key"] = "gcp-" + f_["key"]
    # pixel contract through the (unknown) mapping: pix2wld(g2)(p) == pix2wld(g)(T p), T = A^-1 A2
    A, A2 = fa(aff_of(g)), fa(aff_of(g2))
    det = A[0] * A[4] - A[1] * A[3]
    if det != 0 and min(g2.shape) > 0:
        ok = True
        for p in sample_pix(rng, tuple(map(int, g2.shape)))[:5]:
            q = fa_apply(A2, p)  # mapping-pixel coordinates, exact
            w2 = g2.pix2wld(float(p[0]), float(p[1]))
            w1 = mapping.p2w(float(q[0]), float(q[1]))
            ok = ok and all(abs(a - b) <= 1e-9 * max(1.0, abs(b)) for a, b in zip(w2, w1))
            if affine_gcps:
                wb = B * (float(q[0]), float(q[1]))
                ok = ok and all(abs(a - b) <= 1e-7 * max(1.0, abs(b)) for a, b in zip(w2, wb))
                pp = g2.wld2pix(*w2)
                ok = ok and all(abs(a - float(b)) <= 1e-4 * max(1.0, abs(float(b))) for a, b in zip(pp, p))
        R.oracle(ok, "gcp-pixel-contract", case, "GCP view pix2wld differs from mapping.p2w(affine * p)",
                 sig="gcp|" + ("affine-gcps" if affine_gcps else "distorted"))
    return g2


def gcp_stream(R: Run, ops: Ops, cxE: Ctx, cxF: Ctx):
    GB, GCP, Affine, TNI = ops.GB, ops.GCP, ops.Affine, ops.TNI
    rng = R.rng
    for it in range(R.pick(60, 400)):
        ny, nx = rng.randint(2, 40), rng.randint(2, 40)
        kind = rng.choice(["st", "shear", "rot", "rot", "mirror"])
        sx, sy = 30.0 * rng.choice([1, 0.5, 2]), -30.0 * rng.choice([1, 0.5, 2, 1.5])
        if kind == "st":
            L = Affine.scale(sx, sy)
        elif kind == "shear":
            L = Affine(sx, 3.0, 0, -2.0, sy, 0)
        elif kind == "mirror":
            L = Affine.scale(-sx, -sy)
        else:
            L = Affine.rotation(rng.choice([30, -17.5, 90, 211, rng.uniform(-180, 180)])) * Affine.scale(sx, sy)
        B = Affine.translation(5e5 + rng.randint(0, 1000), 6e6 - rng.randint(0, 1000)) * L
        affine_gcps = rng.random() < 0.6
        mapping = build_gcp_mapping(GCP, ny, nx, B, affine_gcps)
        gctx = {"mapping": mapping, "B": fa(B) if affine_gcps else None, "shape0": (ny, nx),
                "desc": f"{ny} {nx} {enc_aff(B)} {int(affine_gcps)}"}
        g0 = GCP.GCPGeoBox((ny, nx), mapping)
        g = g0
        check_accessors(cxF, g0, gctx)
        gcp_bbox_oracle(R, g0)
        if it % 10 == 0:
            gcp_zoom_to_res_oracle(R, g0, B)
        for step in range(3):
            op = rng.choice(["crop1", "crop2", "pad", "padwh", "zout", "ztos", "zton", "cpix"])
            g2 = gcp_step(R, ops, cxE, cxF, g, op, gctx)
            if g2 is None:
                continue
            if min(g2.shape) <= 0 or max(g2.shape) > 4000:
                break
            g = g2
            # every public accessor on the VIEW, against the composed pixel->world function
            check_accessors(cxF, g, gctx)
            if step == 0:
                gcp_bbox_oracle(R, g)


GCP_ZTOR_KEY = "gcp-zoom-to-resolution-world-affine"


def gcp_bbox_oracle(R: Run, g):
    """the bounding box of a GCP geobox must contain the world images of its pixel-rectangle corners"""
    case = {"op": "gcp-bbox", "gbox": enc_gb(g), "args": ""}
    try:
        ny, nx = map(int, g.shape)
        bb = g.boundingbox
        ws = [g.pix2wld(float(x), float(y)) for x, y in [(0, 0), (0, ny), (nx, ny), (nx, 0)]]
        tol = 1e-6 * max(1.0, max(abs(v) for w in ws for v in w))
        ok = all(bb.left - tol <= w[0] <= bb.right + tol and bb.bottom - tol <= w[1] <= bb.top + tol for w in ws)
        R.oracle(ok and bb.crs == g.crs, "gcp-bbox-not-footprint", case,
                 f"GCPGeoBox.boundingbox {tuple(bb.bbox)} does not contain the corner images {ws}")
    except Exception as e:  # pylint: disable=broad-except
        R.oracle(False, "gcp-bbox-raised", case, f"{type(e).__name__}: {e}")


def gcp_zoom_to_res_oracle(R: Run, g, B):
    """GCPGeoBox.zoom_to(resolution=r) should cover the same footprint with pixels of about r world units.
    Evaluated only once the finding is registered in known_findings.json (it is a genuine defect of the
    unfixed code, reported to the integrator; not small enough for a fix: commit)."""
    if not any(k.get("key") == GCP_ZTOR_KEY for k in R.known):
        R.count("skipped:" + GCP_ZTOR_KEY + "(not registered)")
        return
    r = abs(B.a) * 2
    case = {"op": "gcp-ztor", "gbox": enc_gb(g), "args": frac_s(r)}
    try:
        g2 = g.zoom_to(resolution=r)
        ny, nx = map(int, g.shape)
        ny2, nx2 = map(int, g2.shape)
        w1, w2 = g.pix2wld(float(nx), float(ny)), g2.pix2wld(float(nx2), float(ny2))
        ok = abs(nx2 - nx / 2) <= 1 and abs(ny2 - ny / 2) <= 1 and all(abs(a - b) <= 2 * r for a, b in zip(w1, w2))
        R.oracle(ok, GCP_ZTOR_KEY, case, f"GCPGeoBox{(ny, nx)}.zoom_to(resolution={r}) -> shape {(ny2, nx2)}, far corner {w2} vs {w1}")
    except Exception as e:  # pylint: disable=broad-except
        R.oracle(False, GCP_ZTOR_KEY, case, f"{type(e).__name__}: {e}")


def gcp_call(op, g, tail):
    toks = tail.split(" ") if tail else []

    def pidx(t):
        p = t.split(":")
        if p[0] == "i":
            return int(p[1])
        return slice(None if p[1] == "N" else int(p[1]), None if p[2] == "N" else int(p[2]))
    if op == "crop1":
        return lambda: g[pidx(toks[0])]
    if op == "crop2":
        return lambda: g[pidx(toks[0]), pidx(toks[1])]
    if op == "pad":
        return lambda: g.pad(int(toks[0]), None if toks[1] == "N" else int(toks[1]))
    if op == "padwh":
        return lambda: g.pad_wh(int(toks[0]), None if toks[1] == "N" else int(toks[1]))
    if op == "zout":
        return lambda: g.zoom_out(float(F(toks[0])))
    if op == "ztos":
        return lambda: g.zoom_to((int(toks[0]), int(toks[1])))
    if op in ("zton", "S:zton"):
        return lambda: g.zoom_to(int(toks[0]))
    if op == "cpix":
        return lambda: g.center_pixel
    raise KeyError(op)


# ------------------------------------------------------------------ search / replay
def parse_gb(GB, Affine, toks):
    ny, nx, aff, tag = toks
    A = Affine(*[float(F(v)) for v in aff.split(";")])
    return GB.GeoBox((int(ny), int(nx)), A, CRS_TAGS.get(int(tag)))


def searcher(R: Run, mismatches):
    """proof or correspondence broke and no oracle failed: run the oracles much harder, first on the ops that
    mismatched, on fresh geoboxes"""
    mods = _import()
    GB, GCP, Affine, TNI = mods
    R2 = Run(R.prop, R.tier, R.seed + 7919)
    R2.known = R.known
    ops = Ops(R2, mods)
    names = [m["line"].split(" ")[1] for m in mismatches] or ALL_OPS
    names = [n for n in dict.fromkeys(names) if n in ALL_OPS] or ALL_OPS
    for exact in (True, False):
        cx = Ctx(R2, exact)
        for _ in range(3000):
            g, _k = gen_gbox_exact(R2.rng, GB, Affine) if exact else gen_gbox_float(R2.rng, GB, Affine)
            try:
                check_base_views(cx, g, TNI)
                for op in names:
                    run_op(R2, ops, cx, op, g, False)
            except Exception:  # pylint: disable=broad-except
                continue
            if R2.oracle_failures:
                f = R2.oracle_failures[0]
                return {"key": f["key"], "case": f["case"], "what": f["what"]}
    return None


def replay(R: Run, rec) -> int:
    mods = _import()
    GB, GCP, Affine, TNI = mods
    case = rec.get("case") or {}
    key = rec.get("key", "")
    print("replay case:", case, "key:", key)
    if not case or "gbox" not in case:
        print("no concrete input recorded:", str(rec.get("broken", ""))[:2000])
        return 1
    g = parse_gb(GB, Affine, case["gbox"].split(" "))
    op = case["op"]
    args = case.get("args") or ""
    print("geobox:", g)
    R2 = Run(R.prop, R.tier, R.seed)
    R2.known = []
    cx = Ctx(R2, all(F(v).denominator & (F(v).denominator - 1) == 0 for v in tuple(aff_of(g))[:6]) and key not in
             ("zoom-to-int-longest-side", "zoom-to-int-shape"))
    cx.exact = False if key in ("bbox-misses-corner",) else cx.exact
    from .c02_glue import replay_glue
    if op in ("shape-arg", "zoom-to-args", "getitem", "project", "footprint", "gcp-resolution", "cross-crs", "rotate-compose", "qr2sample",
              "cmeta", "laws") and replay_glue(R2, g, op, args, key):
        pass
    elif op == "region" and isinstance(args, dict) and "pts" in args:
        from odc.geo import geom as G
        pts = [tuple(float(F(v)) for v in t.split(";")) for t in args["pts"]]
        crs = CRS_TAGS.get(int(args.get("crs", 0)))
        roi = G.point(pts[0][0], pts[0][1], crs) if len(pts) == 1 else G.line(pts, crs) if len(pts) == 2 or pts[0] != pts[-1] \
            else G.polygon(pts, crs)
        got = g[roi]
        print("region:", roi, "->", got)
        region_oracle(Ctx(R2, False), g, roi, args.get("kind", "Geometry"), got)
    elif op == "gcp-fit" and isinstance(args, dict):
        N, (ny, nx) = args["N"], args["shape"]
        c = {tuple(map(int, k.split(","))): (float(F(v[0])), float(F(v[1]))) for k, v in args["coef"].items()}
        pix = gcp_layout(N, nx, ny)
        wex = [truth_eval(c, x, y) for x, y in pix]
        gg = GCP.GCPGeoBox((ny, nx), GCP.GCPMapping(np.asarray(pix, dtype="float64"),
                                                     np.asarray([(float(a), float(b)) for a, b in wex], dtype="float64"), "EPSG:32633"))
        err = max(max(abs(F(float(a)) - b) for a, b in zip(gg.pix2wld(float(x), float(y)), w)) for (x, y), w in zip(pix, wex))
        errp = max(max(abs(a - b) for a, b in zip(gg.wld2pix(float(w[0]), float(w[1])), (x, y))) for (x, y), w in zip(pix, wex))
        print(f"{N} control points ({args['family']} ground truth): pix2wld misses control points by {float(err):.3g}, wld2pix by {errp:.3g} px")
        terms = 3 if N == 3 else 4 if N < 9 else 9
        if FIT_TERMS[args["family"]] <= terms or N == terms:
            R2.oracle(err <= 1e-5, key, case, f"pix2wld misses a control point by {float(err):.3g}")
    elif op == "acc-views":
        check_accessors(cx, g)
    elif op == "gcp-acc-views" and args:
        ny0, nx0, baff, flag = args.split(" ")
        B = Affine(*[float(F(v)) for v in baff.split(";")])
        mapping = build_gcp_mapping(GCP, int(ny0), int(nx0), B, flag == "1")
        gg = GCP.GCPGeoBox(tuple(map(int, g.shape)), mapping, aff_of(g))
        print("GCP view:", gg, "pixel-side affine", tuple(aff_of(g))[:6], "control points related by", B, "exactly" if flag == "1" else "+ distortion")
        check_accessors(Ctx(R2, False), gg, {"mapping": mapping, "B": fa(B) if flag == "1" else None,
                                             "shape0": (int(ny0), int(nx0)), "desc": args})
    elif op == "views":
        check_base_views(cx, g, TNI)
        print("boundingbox:", g.boundingbox)
        print("extent:", g.extent.exterior.points if min(g.shape) > 0 else None)
    elif op in ("S:zton", "zton") and args:
        n = int(args.split(" ")[0])
        got = tuple(map(int, g.zoom_to(n).shape))
        print(f"zoom_to({n}) ->", got)
        R2.oracle(max(got) == n, key, case, f"longest side {max(got)} != {n}")
    elif op in ("crop1", "crop2") and args:
        toks = args.split(" ")
        call = gcp_call(op, g, args)
        o = call()
        print("result:", o)
        n_ax = [int(g.shape[0]), int(g.shape[1])]

        def pidx(t):
            p = t.split(":")
            return int(p[1]) if p[0] == "i" else slice(None if p[1] == "N" else int(p[1]), None if p[2] == "N" else int(p[2]))
        ss = [pidx(t) for t in toks] + [slice(None)]
        sely, selx = norm_index_numpy(ss[0], n_ax[0]), norm_index_numpy(ss[1], n_ax[1])
        if sely and selx:
            check_contract(cx, op, g, o, args, T=fa_tr(selx[0], sely[0]), shape=(sely[1], selx[1]))
    else:
        # generic: re-run the op family with the recorded arguments where they can be rebuilt, else report
        try:
            call = gcp_call(op, g, args)
            print("result:", call())
        except Exception as e:  # pylint: disable=broad-except
            print("cannot rebuild this call from the record:", type(e).__name__, e)
        return 1
    for f in R2.oracle_failures:
        print("STILL FAILS:", f["key"], f["what"])
    return 1 if R2.oracle_failures else 0
