"""C12 — public entry points `GeoboxTiles.grid_intersect(src)` / `GeoboxTiles.tiles(query)` against the model's own
dispatch (`gridIntersect`, `tilesQuery`, Model/C12Gi.lean): the model is given the ARGUMENTS (CRS identity, kind of base,
affine, shape, tiling) and decides the path itself; on same-CRS pairs nothing is fed back from the real run (shapely's
`disjoint` on convex rings is the reference semantics `Spec.Convex.disjoint`, validated here against shapely)."""
from __future__ import annotations

import itertools
from fractions import Fraction

import numpy as np

from .common import Run, bool_s, frac_s, guarded, list_s
from .c04 import tiling_tok

TOLS = " ".join(str(Fraction(v).numerator) + "/" + str(Fraction(v).denominator) for v in (1e-3, 1e-6, 1e-8, 1e-10))

# 2x2 matrices (a, b, d, e) with dyadic entries and a power-of-two determinant: every float operation of the code on
# them (products, ~affine, corner images) is exact.  b = d = 0 entries keep the pair on the linear path.
MATS = {
    "id": (1, 0, 0, 1), "flipy": (1, 0, 0, -1), "flipx": (-1, 0, 0, 1), "rot180": (-1, 0, 0, -1),
    "rot90": (0, -1, 1, 0), "rot270": (0, 1, -1, 0), "transpose": (0, 1, 1, 0),
    "shearx": (1, 0.5, 0, 1), "sheary": (1, 0, 0.25, 1), "shearx-": (1, -1, 0, 1),
    "rot45s": (1, -1, 1, 1), "rot135s": (-1, -1, 1, -1), "rot45h": (0.5, -0.5, 0.5, 0.5),
    "skew21": (2, 1, 1, 1), "skew-": (1, 1, -1, 1), "shearxy": (1, 0.5, 0.5, 1.25),
}


def check_linear_of(dst, src):
    """the destination-to-source pixel map `grid_intersect` uses on its linear path, or None: the private
    `GeoboxTiles._check_linear` while it exists, else the same decision through public functions (CRS equality,
    both bases GeoBox, odc.geo.math.snap_affine / is_affine_st)"""
    fn = getattr(dst, "_check_linear", None)
    if fn is not None:
        return fn(src)
    from odc.geo.geobox import GeoBox
    from odc.geo.math import is_affine_st, snap_affine

    if src.base.crs != dst.base.crs or not isinstance(dst.base, GeoBox) or not isinstance(src.base, GeoBox):
        return None
    A = snap_affine((~src.base.transform) * dst.base.transform)
    return A if is_affine_st(A) else None


def crs_tag(crs) -> str:
    return "N" if crs is None else str(int(str(crs).split(":")[1]))


def aff_s(A) -> str:
    return ";".join(frac_s(v) for v in tuple(A)[:6])


def idxs_s(xs) -> str:
    return list_s([f"{int(a)};{int(b)}" for a, b in xs])


def deps_s(d) -> str:
    return list_s([f"{k[0]};{k[1]}={idxs_s(v)}" for k, v in d.items()])


def bbox_s(b) -> str:
    return ";".join(frac_s(v) for v in (b.left, b.bottom, b.right, b.top))


def spec_dims(spec):
    kind, sy, sx = spec
    return (sy[0], sx[0]) if kind == "r" else (sum(sy), sum(sx))


def tgb_tok(crs, lin, A, spec) -> str:
    ny, nx = spec_dims(spec)
    kind, sy, sx = spec
    return f"{crs_tag(crs)} {bool_s(lin)} {aff_s(A)} {ny} {nx} {tiling_tok(kind, sy)} {tiling_tok(kind, sx)}"


def mk(GeoBox, GeoboxTiles, spec, A, crs):
    kind, sy, sx = spec
    ny, nx = spec_dims(spec)
    return GeoboxTiles(GeoBox((ny, nx), A, crs), (sy[1], sx[1]) if kind == "r" else (tuple(sy), tuple(sx)))


def quad_s(pts) -> str:
    return ";".join(frac_s(v) for p in pts[:4] for v in p)


def ring_of(g):
    """first four vertices of a polygon's exterior ring"""
    return [(float(x), float(y)) for x, y in list(g.exterior.coords)[:4]]


def rects(spec):
    """pixel rectangle (y0, y1, x0, x1) of every tile from the tiling spec alone"""
    kind, sy, sx = spec

    def offs(s):
        if kind == "r":
            N, n = s
            T = -(-N // n)
            return [min(i * n, N) for i in range(T + 1)]
        o = [0]
        for c in s:
            o.append(o[-1] + c)
        return o

    oy, ox = offs(sy), offs(sx)
    return {(r, c): (oy[r], oy[r + 1], ox[c], ox[c + 1]) for r in range(len(oy) - 1) for c in range(len(ox) - 1)}


def tile_poly(A, rect):
    import shapely.geometry as sg

    y0, y1, x0, x1 = rect
    return sg.Polygon([A * (x0, y0), A * (x0, y1), A * (x1, y1), A * (x1, y0)])


def brute_pairs(dspec, sspec, D, S, thr=1e-9):
    """(dst tile, src tile) pairs whose footprints overlap with positive area – from the specs and affines only"""
    out = []
    sp = {k: tile_poly(S, r) for k, r in rects(sspec).items()}
    for d, r in rects(dspec).items():
        dp = tile_poly(D, r)
        if dp.area == 0:
            continue
        for s, p in sp.items():
            if p.area > 0 and dp.intersection(p).area > thr:
                out.append((d, s))
    return out


def rnd_spec(rng, zero_ok=False):
    kind = rng.choice("rrv")
    if kind == "r":
        def ax():
            N = rng.randint(2, 10)
            return (N, rng.randint(1, N + 1))
        return ("r", ax(), ax())

    def axv():
        k = rng.randint(1, 4)
        ch = [rng.randint(1, 4) for _ in range(k)]
        if zero_ok and rng.random() < 0.3:
            ch.insert(rng.randint(0, len(ch)), 0)
        return tuple(ch)
    return ("v", axv(), axv())


def spec_validation(R: Run):
    """`Spec.Convex.disjoint` == shapely `disjoint` on convex quadrilaterals (parallelograms and general convex quads;
    overlapping, containing, sharing an edge / a vertex, vertex on edge, apart by a hair)"""
    import shapely.geometry as sg

    rng = R.rng

    def para():
        a, b, d, e = MATS[rng.choice(list(MATS))]
        w, h = rng.randint(1, 6), rng.randint(1, 6)
        ox, oy = rng.randint(-12, 12) / 2, rng.randint(-12, 12) / 2
        f = lambda x, y: (a * x + b * y + ox, d * x + e * y + oy)
        return [f(0, 0), f(0, h), f(w, h), f(w, 0)]

    def convex_quad():
        while True:
            pts = [(rng.randint(-8, 8) / 2, rng.randint(-8, 8) / 2) for _ in range(4)]
            hull = sg.MultiPoint(pts).convex_hull
            if hull.geom_type == "Polygon" and len(hull.exterior.coords) == 5:
                return [(float(x), float(y)) for x, y in list(hull.exterior.coords)[:4]]

    n = R.pick(500, 4000)
    for i in range(n):
        p = para() if rng.random() < 0.6 else convex_quad()
        r = rng.random()
        if r < 0.25:      # q shares an edge / vertex with p: translate p along one of its own edges or diagonals
            k = rng.randrange(4)
            j = rng.choice([(k + 1) % 4, (k + 2) % 4])
            dx, dy = p[j][0] - p[k][0], p[j][1] - p[k][1]
            m = rng.choice([1, 1, -1, 0.5, 2])
            q = [(x + m * dx, y + m * dy) for x, y in p]
            tag = "shifted-along-own-edge"
        elif r < 0.35:    # a hair apart / overlapping from the touching position
            k = rng.randrange(4)
            dx, dy = p[(k + 1) % 4][0] - p[k][0], p[(k + 1) % 4][1] - p[k][1]
            eps = rng.choice([2.0 ** -20, -2.0 ** -20, 2.0 ** -10])
            q = [(x + dx * (1 + eps), y + dy * (1 + eps)) for x, y in p]
            tag = "hair"
        else:
            q = para() if rng.random() < 0.6 else convex_quad()
            tag = "random"
        P, Q = sg.Polygon(p), sg.Polygon(q)
        if not (P.is_valid and Q.is_valid and P.area > 0 and Q.area > 0):
            continue
        R.corr(f"c12 cvx {quad_s(p)} {quad_s(q)}", lambda P=P, Q=Q: bool_s(P.disjoint(Q)),
               sig=f"cvx|{tag}|{'disjoint' if P.disjoint(Q) else 'touch' if P.touches(Q) else 'overlap'}")


def rnd_pair(rng, Affine, allow_rot_src=True):
    """exact same-CRS pair of affines: source = translation * M_s * scale, destination = translation * M_d * scale"""
    sres = rng.choice([1, 2, 0.5])
    ms = rng.choice(["id", "flipy", "flipy", "flipy", "rot90", "shearx"]) if allow_rot_src else "flipy"
    md = rng.choice(list(MATS))
    a, b, d, e = MATS[ms]
    S = Affine(a * sres, b * sres, rng.randint(-16, 16) / 2, d * sres, e * sres, rng.randint(-16, 16) / 2)
    k = rng.choice([1, 1, 2, 0.5])
    a, b, d, e = MATS[md]
    far = rng.random() < 0.12
    D = Affine(a * sres * k, b * sres * k, S.c + sres * (rng.randint(-12, 12) / 2 + (60 if far else 0)),
               d * sres * k, e * sres * k, S.f + sres * rng.randint(-12, 12) / 2)
    return S, D, ms, md, far


def gi_case(R: Run, GeoBox, GeoboxTiles, dspec, sspec, D, S, crs_d, crs_s, tag, foreign="F - - - -", dst=None, src=None,
            lin=(True, True), oracle=True):
    dst = dst if dst is not None else mk(GeoBox, GeoboxTiles, dspec, D, crs_d)
    src = src if src is not None else mk(GeoBox, GeoboxTiles, sspec, S, crs_s)
    case = {"dspec": dspec, "sspec": sspec, "D": aff_s(D), "S": aff_s(S), "crs": [crs_d, crs_s], "tag": tag, "gi": True}
    res, path = [], []

    def f():
        A = check_linear_of(dst, src)
        if A is not None:
            p = "linear"
        elif src.base.crs == dst.base.crs:
            p = "same-crs" if all(lin) else "param"
        else:
            p = "empty" if foreign.startswith("T") else "param"
        path.append(p)
        o = dst.grid_intersect(src)
        res.append(o)
        return p + " " + deps_s(o)

    line = f"c12 gi {tgb_tok(crs_d, lin[0], D, dspec)} {tgb_tok(crs_s, lin[1], S, sspec)} {TOLS} {foreign}"
    out = guarded(f)
    if out.startswith("ERR:"):
        # `~affine` of a singular matrix: affine.TransformNotInvertibleError is the model's valueError (Model/Affine.inv?)
        out = "err " + out.replace("TransformNotInvertibleError", "ValueError")
    R.corr(line, lambda: out, sig=f"gi|{path[0] if path else out}|{tag}")
    if not oracle:
        return res[0] if res else None
    if not res:
        R.oracle(False, "grid-intersect-raises", case, out, sig=f"gi-raises|{tag}")
        return None
    if crs_d == crs_s and all(lin):
        need = brute_pairs(dspec, sspec, D, S)
        miss = [(d, s) for d, s in need if s not in res[0].get(d, [])]
        R.oracle(not miss, "grid-intersect-misses-dependency", case, f"missing (dst, src) pairs {miss[:6]} of {len(need)}",
                 sig=f"gi-deps|{path[0]}|{tag}|{'crs' if crs_d else 'no-crs'}", trivial=not need)
        import shapely.geometry as sg  # noqa: F401

        ny, nx = spec_dims(dspec)
        sy_, sx_ = spec_dims(sspec)
        apart = tile_poly(D, (0, ny, 0, nx)).disjoint(tile_poly(S, (0, sy_, 0, sx_)))
        if apart:
            edges = [(d, s) for d, ss in res[0].items() for s in ss]
            R.oracle(not edges, "grid-intersect-disjoint-not-empty", case, f"rasters are apart but the graph has edges {edges[:6]}",
                     sig=f"gi-disjoint|{path[0]}|{tag}")
    return res[0]


def grid_intersect_public(R: Run, geom, GeoBox, GeoboxTiles, Affine):
    rng = R.rng
    # --- same CRS / no CRS: the model computes everything
    for it in range(R.pick(150, 2600)):
        dspec, sspec = rnd_spec(rng), rnd_spec(rng)
        S, D, ms, md, far = rnd_pair(rng, Affine)
        crs = rng.choice(["EPSG:3857", "EPSG:3857", "EPSG:32633", None, None])
        gi_case(R, GeoBox, GeoboxTiles, dspec, sspec, D, S, crs, crs, f"{md}/{ms}{'|far' if far else ''}")
    # exhaustive small: every matrix x 2x2 / 3x1 tilings x half-pixel offsets, with and without CRS
    small = [("r", (4, 2), (4, 2)), ("r", (3, 1), (5, 5)), ("v", (1, 3), (2, 2))]
    S0 = Affine(1, 0, 0, 0, -1, 4)
    for md, (a, b, d, e) in MATS.items():
        for spec in small:
            for ox in (-1.5, 0, 2):
                D = Affine(a, b, ox, d, e, 1.5)
                for crs in ("EPSG:3857", None):
                    gi_case(R, GeoBox, GeoboxTiles, spec, small[0], D, S0, crs, crs, f"{md}/small")
    # zero-length chunks stay on the linear path (shapely on zero-area rings is not part of the reference semantics)
    for _ in range(R.pick(30, 300)):
        dspec, sspec = rnd_spec(rng, True), rnd_spec(rng, True)
        sres = rng.choice([1, 2, 0.5])
        S = Affine(sres, 0, rng.randint(-8, 8), 0, -sres, rng.randint(-8, 8))
        mx, my = rng.choice([(1, 1), (-1, 1), (1, -1)])
        D = Affine(sres * mx, 0, S.c + sres * rng.randint(-6, 10) / 2, 0, -sres * my, S.f - sres * rng.randint(-6, 10) / 2)
        crs = rng.choice(["EPSG:3857", None])
        gi_case(R, GeoBox, GeoboxTiles, dspec, sspec, D, S, crs, crs, "zero-chunks")
    # degenerate affine: `~src.transform` raises
    gi_case(R, GeoBox, GeoboxTiles, small[0], small[0], S0, Affine(1, 2, 0, 2, 4, 0), "EPSG:3857", "EPSG:3857", "singular-src",
            oracle=False)

    # --- different CRSs: pyproj / shapely are parameters measured on the real objects; the model decides the path,
    # the early `{}` and composes the result
    def foreign_of(dst, src):
        fp4326 = src.base.footprint(4326, 2) & dst.base.footprint(4326, 2)
        if fp4326.is_empty:
            return "T - - - -"
        fp = fp4326.to_crs(dst.base.crs)
        return general_tokens(dst, src, fp)

    def general_tokens(dst, src, fp):
        yy, xx = dst.range_from_bbox(fp.boundingbox)
        dc = list(itertools.product(yy, xx))
        df = [bool(fp.disjoint(dst[i].extent)) for i in dc]
        fpb = dst.base.project(fp.boundingbox.polygon).boundingbox
        exts, sfs = [], []
        for i, dj in zip(dc, df):
            if dj:
                continue
            ext = dst[i].extent
            if src.base.crs is not None and ext.crs != src.base.crs:
                ext = ext.to_crs(src.base.crs, check_and_fix=True)
            y2, x2 = src.range_from_bbox(ext.boundingbox)
            sc = list(itertools.product(y2, x2))
            exts.append(bbox_s(src.base.project(ext.boundingbox.polygon).boundingbox))
            sfs.append(list_s([bool_s(bool(ext.disjoint(src[j].extent))) for j in sc]))
        return (f"F {bbox_s(fpb)} {list_s([bool_s(v) for v in df])} {'|'.join(exts) if exts else '-'} "
                f"{'|'.join(sfs) if sfs else '-'}")

    utm = GeoBox((48, 60), Affine(1000, 0, 400000, 0, -1000, 6500000), "EPSG:32633")
    for _ in range(R.pick(6, 40)):
        y0, x0 = rng.randint(0, 12), rng.randint(0, 12)
        sub = utm[y0:y0 + rng.randint(16, 30), x0:x0 + rng.randint(16, 40)]
        ll = GeoBox.from_bbox(sub.extent.to_crs("EPSG:4326").boundingbox, resolution=0.05, tight=True)
        dspec = ("r", (ll.shape[0], rng.choice([4, 7, 16])), (ll.shape[1], rng.choice([5, 8, 16])))
        sspec = ("r", (48, rng.choice([12, 20, 48])), (60, rng.choice([16, 25])))
        for swap in (False, True):
            (da, dc_, dsp), (sa, sc_, ssp) = ((ll.affine, "EPSG:4326", dspec), (utm.affine, "EPSG:32633", sspec))
            if swap:
                (da, dc_, dsp), (sa, sc_, ssp) = (sa, sc_, ssp), (da, dc_, dsp)
            dst, src = mk(GeoBox, GeoboxTiles, dsp, da, dc_), mk(GeoBox, GeoboxTiles, ssp, sa, sc_)
            fr = guarded(lambda: foreign_of(dst, src))
            if fr.startswith("ERR:"):
                R.oracle(False, "grid-intersect-raises", {"cross": True, "swap": swap, "dspec": dsp, "sspec": ssp}, fr)
                continue
            gi_case(R, GeoBox, GeoboxTiles, dsp, ssp, da, sa, dc_, sc_, "cross-crs", foreign=fr, dst=dst, src=src, oracle=False)
    # far apart in different CRSs: the early exit
    farbox = GeoBox((40, 40), Affine(0.01, 0, -70.0, 0, -0.01, -30.0), "EPSG:4326")
    for swap in (False, True):
        a, b = (farbox, utm) if swap else (utm, farbox)
        dsp, ssp = ("r", (a.shape[0], 16), (a.shape[1], 16)), ("r", (b.shape[0], 20), (b.shape[1], 32))
        dst, src = mk(GeoBox, GeoboxTiles, dsp, a.affine, str(a.crs)), mk(GeoBox, GeoboxTiles, ssp, b.affine, str(b.crs))
        fr = guarded(lambda: foreign_of(dst, src))
        gi_case(R, GeoBox, GeoboxTiles, dsp, ssp, a.affine, b.affine, str(a.crs), str(b.crs), "cross-crs-far", foreign=fr,
                dst=dst, src=src, oracle=False)
        d0 = guarded(lambda: deps_s(dst.grid_intersect(src)))
        R.oracle(d0 == "[]", "grid-intersect-disjoint-not-empty", {"cross": True, "far": True, "swap": swap}, d0,
                 sig="gi-disjoint|cross-crs")

    # --- a non-linear base (GCPGeoBox) in the same CRS: `_check_linear` answers None on `isinstance`, general path
    try:
        from odc.geo.gcp import GCPGeoBox, GCPMapping
    except Exception:  # pylint: disable=broad-except
        GCPGeoBox = None
    if GCPGeoBox is not None:
        for _ in range(R.pick(3, 12)):
            ny, nx = rng.randint(6, 12), rng.randint(6, 12)
            A = Affine(2, 0, 100 + rng.randint(0, 8), 0, -2, 200 + rng.randint(0, 8))
            pix = np.array([(x, y) for x in (0, nx / 2, nx) for y in (0, ny / 2, ny)], dtype=float)
            wld = np.array([A * (x, y) for x, y in pix])
            gspec = ("r", (ny, rng.randint(2, ny)), (nx, rng.randint(2, nx)))
            lspec = rnd_spec(rng)
            L = Affine(2, 0, 100 + rng.randint(-6, 6), 0, -2, 200 + rng.randint(-6, 6))
            for gcp_is_dst in (True, False):
                def build():
                    gg = GeoboxTiles(GCPGeoBox((ny, nx), GCPMapping(pix, wld, "EPSG:3857")), (gspec[1][1], gspec[2][1]))
                    ll_ = mk(GeoBox, GeoboxTiles, lspec, L, "EPSG:3857")
                    return (gg, ll_) if gcp_is_dst else (ll_, gg)
                try:
                    dst, src = build()
                    fr = general_tokens(dst, src, src.base.extent)
                except Exception as e:  # pylint: disable=broad-except
                    R.oracle(False, "grid-intersect-raises", {"gcp": True, "gcp_is_dst": gcp_is_dst}, repr(e), sig="gi-raises|gcp")
                    continue
                dsp, ssp = (gspec, lspec) if gcp_is_dst else (lspec, gspec)
                da, sa = (Affine.identity(), L) if gcp_is_dst else (L, Affine.identity())
                gi_case(R, GeoBox, GeoboxTiles, dsp, ssp, da, sa, "EPSG:3857", "EPSG:3857", "gcp-base", foreign=fr, dst=dst,
                        src=src, lin=(not gcp_is_dst, gcp_is_dst), oracle=False)


def tiles_public(R: Run, geom, GeoBox, GeoboxTiles, Affine):
    """`tiles(query)` for every kind of query the model dispatches on; two-sided shapely oracle on the real result"""
    import shapely.geometry as sg

    rng = R.rng
    BoundingBox = geom.BoundingBox
    for it in range(R.pick(320, 3000)):
        spec = rnd_spec(rng)
        ny, nx = spec_dims(spec)
        mw = rng.choice(["flipy", "flipy", "id", "rot90", "shearx", "rot45s", "skew21", "flipx"])
        a, b, d, e = MATS[mw]
        sres = rng.choice([1, 2, 0.5])
        W = Affine(a * sres, b * sres, rng.randint(-16, 16) / 2, d * sres, e * sres, rng.randint(-16, 16) / 2)
        crs = rng.choice(["EPSG:3857", "EPSG:3857", None])
        gbt = mk(GeoBox, GeoboxTiles, spec, W, crs)
        head = tgb_tok(crs, True, W, spec)
        kind = rng.choice(["pix", "box", "quad", "quad", "quad-mismatch"])
        # a query around a random pixel rectangle of the image (inside / straddling / outside), on a half-pixel lattice
        x1, y1 = rng.randint(-4, 2 * nx + 2) / 2, rng.randint(-4, 2 * ny + 2) / 2
        x2, y2 = x1 + rng.randint(1, 2 * nx) / 2, y1 + rng.randint(1, 2 * ny) / 2
        if rng.random() < 0.1:
            x1, x2 = x1 + 3 * nx, x2 + 3 * nx
        qcrs = crs
        if kind == "pix":
            q = BoundingBox(x1, y1, x2, y2)
            line = f"c12 tq {head} pix N {bbox_s(q)}"
            qpoly, sig = None, "pix"
        elif kind == "box":
            pts = [W * p for p in ((x1, y1), (x2, y2))]
            bb = (min(p[0] for p in pts), min(p[1] for p in pts), max(p[0] for p in pts), max(p[1] for p in pts))
            if crs is None:
                continue  # a BoundingBox without CRS is the pixel-domain query
            q = BoundingBox(*bb, crs=crs)
            line = f"c12 tq {head} box {crs_tag(crs)} {bbox_s(q)}"
            qpoly, sig = sg.box(*bb), "box"
        else:
            mq = rng.choice(list(MATS))
            qa, qb, qd, qe = MATS[mq]
            o = W * (x1, y1)
            w_, h_ = (x2 - x1) * sres, (y2 - y1) * sres
            ring = [(o[0] + qa * u + qb * v, o[1] + qd * u + qe * v) for u, v in ((0, 0), (0, h_), (w_, h_), (w_, 0))]
            if kind == "quad-mismatch":
                qcrs = "EPSG:3857" if crs is None else None
            q = geom.polygon(ring + [ring[0]], qcrs)
            line = f"c12 tq {head} quad {crs_tag(qcrs)} {quad_s(ring)}"
            qpoly, sig = sg.Polygon(ring), f"quad|{mq}" if kind == "quad" else "quad-mismatch"
        res = []

        def f():
            o = list(gbt.tiles(q))
            res.append(o)
            return idxs_s(o)

        out = guarded(f)
        R.corr(line, lambda: out, sig=f"tq|{sig}|{'crs' if crs else 'no-crs'}|{'err' if out.startswith('ERR') else 'ok' if res and res[0] else 'none'}")
        if kind == "quad-mismatch":
            R.oracle(out.startswith("ERR:"), "tiles-query-crs-mismatch-answered", {"spec": spec, "W": aff_s(W), "crs": [crs, qcrs]},
                     f"query and raster disagree on having a CRS but tiles() answered {out}", sig="tq-mismatch")
            continue
        case = {"spec": spec, "W": aff_s(W), "crs": crs, "kind": kind, "q": line.split(" ")[-1], "tq": True}
        if not res:
            R.oracle(False, "tiles-query-raises", case, out, sig=f"tq-raises|{sig}")
            continue
        if qpoly is None:
            continue  # pixel boxes: `box_queries` has the exact oracle
        polys = {k: tile_poly(W, r) for k, r in rects(spec).items()}
        miss = [k for k, p in polys.items() if p.area > 0 and p.intersection(qpoly).area > 1e-9 and k not in res[0]]
        R.oracle(not miss, "tiles-geom-misses-tile", case, f"{res[0]} misses {miss[:6]}", sig=f"tq-complete|{sig}|{'crs' if crs else 'no-crs'}")
        extra = [k for k in res[0] if polys[k].disjoint(qpoly)]
        R.oracle(not extra, "tiles-geom-returns-disjoint-tile", case, f"{res[0]} contains disjoint {extra[:6]}",
                 sig=f"tq-sound|{sig}")


def extents(R: Run, GeoBox, GeoboxTiles, Affine):
    """intermediate values: the rings `base.extent` and `self[idx].extent` the general path works with"""
    rng = R.rng
    for _ in range(R.pick(60, 400)):
        spec = rnd_spec(rng)
        mw = rng.choice(list(MATS))
        a, b, d, e = MATS[mw]
        W = Affine(a, b, rng.randint(-16, 16) / 2, d, e, rng.randint(-16, 16) / 2)
        gbt = mk(GeoBox, GeoboxTiles, spec, W, "EPSG:3857")
        T = gbt.shape
        iy, ix = rng.randint(-1, T[0]), rng.randint(-1, T[1])
        R.corr(f"c12 ext {tgb_tok('EPSG:3857', True, W, spec)} {iy} {ix}",
               lambda: quad_s(ring_of(gbt.base.extent)) + " " + guarded(lambda: quad_s(ring_of(gbt[iy, ix].extent))),
               sig=f"ext|{mw}|{'in' if 0 <= iy < T[0] and 0 <= ix < T[1] else 'edge'}")


def footprint_params(R: Run, geom, GeoBox, GeoboxTiles, Affine):
    """the arithmetic glue of `footprint(crs, buffer, npoints)` (Model/C12Gi.footprintParams): the buffer distance is
    recovered from the public result (bounding box of the footprint in the raster's own CRS minus that of the extent),
    the densification resolution from `_reproject_resolution` while that helper exists"""
    rng = R.rng
    noted = False
    for _ in range(R.pick(60, 500)):
        ny, nx = rng.randint(1, 40), rng.randint(1, 40)
        ax, ay = rng.choice([1, 2, 0.5, 10, 0.25]), rng.choice([1, 2, 0.5, 10, 0.25])
        W = Affine(ax * rng.choice([1, -1]), 0, rng.randint(-100, 100) / 4, 0, ay * rng.choice([1, -1]), rng.randint(-100, 100) / 4)
        gb = GeoBox((ny, nx), W, "EPSG:3857")
        # the exact stream divides by powers of two (span / 100 is rounded by the double division: oracle below)
        buffer, npoints = rng.choice([0, 1, 2, 2, 0.5, 3]), rng.choice([128, 2, 16, 64])
        spec = ("r", (ny, max(1, ny // 2)), (nx, max(1, nx // 2)))

        def f():
            nonlocal noted
            fp = gb.footprint(gb.crs, buffer, npoints)
            eb, fb = gb.extent.boundingbox, fp.boundingbox
            grow = (Fraction(fb.span_x) - Fraction(eb.span_x)) / 2
            dist = "N" if buffer == 0 else frac_s(grow)
            rr = getattr(gb, "_reproject_resolution", None)
            if rr is None:
                if not noted:
                    noted = True
                    R.notes.append("GeoBox has no _reproject_resolution helper: densification resolution not compared")
                return None
            return f"{dist} {frac_s(rr(npoints))}"

        out = guarded(f)
        if out is None:
            continue
        rr = getattr(gb, "_reproject_resolution", None)
        if rr is not None:
            want = max(abs(W.a) * nx, abs(W.e) * ny) / 100
            got = guarded(lambda: rr(100))
            R.oracle(not isinstance(got, str) and abs(got - want) <= 1e-12 * want, "footprint-resolution-wrong",
                     {"W": aff_s(W), "shape": [ny, nx]}, f"densification resolution {got}, longer side / 100 = {want}", sig="fpp-oracle")
        R.corr(f"c12 fpp {tgb_tok('EPSG:3857', True, W, spec)} {frac_s(buffer)} {npoints}", lambda out=out: out,
               sig=f"fpp|{'buffered' if buffer else 'plain'}|{'mirrored' if W.a < 0 or W.e > 0 else 'north-up'}")


def cross_pipeline(R: Run, geom, GeoBox, GeoboxTiles, Affine):
    """Intercept-free tie of the different-CRS branch of grid_intersect:
    (1) the public footprint(4326, 2) of each raster equals the geometry built from the MODEL's numbers (footprintParams:
        pad = 2 px of the coarser axis, densification = longer side / 100) with shapely's buffer and odc's to_crs;
    (2) grid_intersect(src) equals the composition of public calls the model prescribes: both padded footprints, `&`,
        the early {} for an empty intersection, to_crs into the destination CRS, tiles(), src.tiles(tile extent) - on
        overlapping and on really disjoint cross-CRS pairs;
    (3) the bounding-box contract of a non-linear base: the extent of a GCPGeoBox contains the world image of every
        boundary pixel corner."""
    from .common import run_driver

    rng = R.rng
    base = GeoBox((40, 48), Affine(100, 0, 500000, 0, -100, 6000000), "EPSG:32633")

    def over(crs, res, shrink, flip=False):
        """a raster in another CRS that overlaps `base` (bounding box of its reprojected extent, shrunk and shifted)"""
        bb = base.extent.to_crs(crs).boundingbox
        w, h = bb.span_x * shrink, bb.span_y * shrink
        x0, y1 = bb.left + bb.span_x * rng.uniform(0, 0.4), bb.top - bb.span_y * rng.uniform(0, 0.4)
        nx_, ny_ = max(2, int(w / res)), max(2, int(h / res))
        A_ = Affine(res, 0, x0, 0, -res, y1)
        if flip:
            A_ = Affine(-res, 0, x0 + nx_ * res, 0, -res, y1)
        return (crs, A_, (ny_, nx_))

    specs = [("EPSG:32633", base.affine, (40, 48)),
             ("EPSG:32633", Affine(250, 0, 499000, 0, 250, 5995000), (24, 30)),      # south-up, overlapping
             over("EPSG:3857", 200, 0.7), over("EPSG:3857", 400, 0.8, flip=True), over("EPSG:3035", 150, 0.6),
             over("EPSG:4326", 0.002, 0.7),
             ("EPSG:32755", Affine(100, 0, 500000, 0, -100, 5300000), (40, 40)),     # Tasmania: disjoint from the others
             ("EPSG:5070", Affine(1000, 0, 0, 0, -1000, 1900000), (30, 40))]         # USA: disjoint
    rasters = []
    for crs, A, (ny, nx) in specs:
        gb = GeoBox((ny, nx), A, crs)
        tile = (max(1, ny // rng.randint(2, 4)), max(1, nx // rng.randint(2, 4)))
        rasters.append((crs, A, (ny, nx), tile, gb, GeoboxTiles(gb, tile)))
    lines = [f"c12 fpp {tgb_tok(crs, True, A, ('r', (ny, t[0]), (nx, t[1])))} 2 100" for crs, A, (ny, nx), t, _g, _t in rasters]
    try:
        outs = run_driver("C12", lines)
    except Exception as e:  # pylint: disable=broad-except
        R.notes.append(f"cross_pipeline: driver not available ({e!r})")
        return
    fps = []
    for (crs, A, shape, tile, gb, gbt), out in zip(rasters, outs):
        dist, res = (float(Fraction(v)) for v in out.split(" "))
        case = {"crs": crs, "A": aff_s(A), "shape": list(shape), "model": out}

        def built():
            return gb.extent.buffer(dist).to_crs(4326, resolution=res).dropna()

        real = guarded(lambda: gb.footprint(4326, 2))
        want = guarded(built)
        ok = not isinstance(real, str) and not isinstance(want, str) and real.geom.equals_exact(want.geom, 0)
        R.oracle(ok, "footprint-ne-model-params", case,
                 f"footprint(4326, 2) is not extent.buffer({dist}).to_crs(4326, resolution={res}).dropna()", sig="xpipe|footprint")
        fps.append(real)
    for i, j in itertools.permutations(range(len(rasters)), 2):
        (dcrs, dA, dshape, dtile, dgb, dst), (scrs, sA, sshape, stile, sgb, src) = rasters[i], rasters[j]
        if dcrs == scrs:
            continue
        case = {"dst": dcrs, "src": scrs, "dst_aff": aff_s(dA), "src_aff": aff_s(sA), "dst_tile": list(dtile), "src_tile": list(stile)}

        def public_pipeline():
            fp = fps[j] & fps[i]
            if fp.is_empty:
                return {}
            fp = fp.to_crs(dgb.crs)
            return {idx: list(src.tiles(dst[idx].extent)) for idx in dst.tiles(fp)}

        want = guarded(lambda: deps_s(public_pipeline()))
        got = guarded(lambda: deps_s(dst.grid_intersect(src)))
        apart = not isinstance(fps[i], str) and not isinstance(fps[j], str) and (fps[j] & fps[i]).is_empty
        R.oracle(got == want and not got.startswith("ERR:"), "grid-intersect-ne-public-pipeline", case,
                 f"grid_intersect gives {got[:200]}, the public pipeline {want[:200]}", sig=f"xpipe|{'apart' if apart else 'overlap'}")
        if apart:
            R.oracle(got == "[]", "grid-intersect-disjoint-not-empty", case, got[:200], sig="xpipe|early-empty")
    # (3) non-linear base
    try:
        from odc.geo.gcp import GCPGeoBox, GCPMapping
    except Exception:  # pylint: disable=broad-except
        return
    import shapely.geometry as sg

    for _ in range(R.pick(4, 20)):
        ny, nx = rng.randint(6, 14), rng.randint(6, 14)
        A = Affine(2, rng.choice([0, 0.5]), 100 + rng.randint(0, 8), rng.choice([0, -0.25]), -2, 200 + rng.randint(0, 8))
        pix = np.array([(x, y) for x in (0, nx / 2, nx) for y in (0, ny / 2, ny)], dtype=float)
        wld = np.array([A * (x, y) for x, y in pix])
        gg = guarded(lambda: GCPGeoBox((ny, nx), GCPMapping(pix, wld, "EPSG:3857")))
        if isinstance(gg, str):
            R.oracle(False, "grid-intersect-raises", {"gcp": True}, gg, sig="xpipe|gcp-raises")
            continue
        bb = gg.extent.boundingbox
        box = sg.box(bb.left, bb.bottom, bb.right, bb.top).buffer(1e-6)
        corners = [(x, y) for x in range(nx + 1) for y in (0, ny)] + [(x, y) for y in range(ny + 1) for x in (0, nx)]
        out = [c for c in corners if not box.contains(sg.Point(*gg.pix2wld(*c)))]
        R.oracle(not out, "gcp-extent-misses-boundary", {"shape": [ny, nx], "A": aff_s(A)},
                 f"boundary pixel corners outside the extent's bounding box: {out[:5]}", sig="xpipe|gcp-bbox")


def codeless_crs(R: Run, geom, GeoBox, GeoboxTiles, Affine):
    """Pairs of DIFFERENT CRSs that have no EPSG code (sinusoidal, custom LAEA / AEA / transverse-mercator PROJ strings,
    custom WKT), every object built FRESH from the spec text for the case and not touched before the call under test
    (no .epsg / hash / equality on it): tile queries across the pair and the dependency graph, judged by brute force
    with a pyproj Transformer made from the spec texts themselves."""
    import shapely.geometry as sg
    from pyproj import CRS as PCRS
    from shapely import ops

    from .c12 import dense_dep_oracle, shared_transformer

    rng = R.rng
    lon0, lat0 = rng.choice([(134, -25), (15, 50), (-100, 40), (25, -28)])
    dl = rng.choice([0, 3, -4])
    specs = {
        "sinu": "+proj=sinu +lon_0=0 +x_0=0 +y_0=0 +R=6371007.181 +units=m +no_defs",
        "laea": f"+proj=laea +lat_0={lat0} +lon_0={lon0 + dl} +x_0=0 +y_0=0 +ellps=GRS80 +units=m +no_defs",
        "laea2": f"+proj=laea +lat_0={lat0 + 2} +lon_0={lon0 - 3} +x_0=1000 +y_0=0 +datum=WGS84 +units=m +no_defs",
        "aea": f"+proj=aea +lat_1={lat0 - 7} +lat_2={lat0 + 7} +lat_0={lat0} +lon_0={lon0} +x_0=0 +y_0=0 +ellps=GRS80 +units=m +no_defs",
        "tmerc": f"+proj=tmerc +lat_0={lat0} +lon_0={lon0 + 1} +k=0.9996 +x_0=500000 +y_0=0 +datum=WGS84 +units=m +no_defs",
    }
    specs["wkt"] = PCRS.from_user_input(f"+proj=laea +lat_0={lat0 - 1} +lon_0={lon0 + 2} +x_0=0 +y_0=0 +ellps=WGS84 +units=m +no_defs").to_wkt()
    names = list(specs)

    def centre(spec):
        return shared_transformer("EPSG:4326", spec).transform(lon0, lat0)

    def fresh(name, n, res, tile, shift=(0, 0)):
        """a new tiled raster around the common centre; the CRS object is created here from the text"""
        cx, cy = centre(specs[name])
        A = Affine(res, 0, cx - n * res / 2 + shift[0] * res, 0, -res, cy + n * res / 2 + shift[1] * res)
        return A, GeoboxTiles(GeoBox((n, n), A, specs[name]), (tile, tile))

    def dense(poly, k=40):
        cc = list(poly.exterior.coords)
        pts = []
        for (x0, y0), (x1, y1) in zip(cc[:-1], cc[1:]):
            pts += [(x0 + (x1 - x0) * t / k, y0 + (y1 - y0) * t / k) for t in range(k)]
        return sg.Polygon(pts)

    pairs = [(a, b) for a in names for b in names if a != b]
    rng.shuffle(pairs)
    for qa, tb in pairs[: R.pick(8, 30)]:
        # query given in CRS `qa` against a tiling in CRS `tb`
        A, gbt = fresh(tb, 60, 10_000, 15)
        cx, cy = centre(specs[qa])
        w, h = rng.randint(8, 20) * 10_000, rng.randint(8, 20) * 10_000
        ox, oy = rng.randint(-10, 10) * 10_000, rng.randint(-10, 10) * 10_000
        qbox = sg.box(cx + ox - w / 2, cy + oy - h / 2, cx + ox + w / 2, cy + oy + h / 2)
        t = shared_transformer(specs[qa], specs[tb])
        q_in_tb = ops.transform(t.transform, dense(qbox))
        polys = {k: tile_poly(A, r) for k, r in rects(("r", (60, 15), (60, 15))).items()}
        inner = q_in_tb.buffer(-15_000)       # well inside: odc-geo reprojects the four corners / vertices only
        must = sorted(k for k, p in polys.items() if not inner.is_empty and p.intersection(inner).area > 1e-3 * p.area)
        for how in ("geom", "bbox"):
            q = geom.Geometry(qbox, specs[qa]) if how == "geom" else geom.BoundingBox(*qbox.bounds, crs=specs[qa])
            got = guarded(lambda: sorted(gbt.tiles(q)))
            case = {"query_crs": qa, "tiling_crs": tb, "spec_q": specs[qa][:120], "spec_t": specs[tb][:120], "box": list(qbox.bounds), "how": how}
            if isinstance(got, str):
                R.oracle(False, "tiles-query-raises", case, got, sig=f"codeless|raises|{how}")
                continue
            miss = [k for k in must if k not in got]
            R.oracle(not miss, "tiles-geom-misses-tile", case, f"tiles {got} miss {miss[:8]} (code-less CRS pair, fresh objects)",
                     sig=f"codeless|tiles|{how}", trivial=not must)
            _A2, gbt = fresh(tb, 60, 10_000, 15)      # a fresh raster for the next spelling
    for da, sb in pairs[: R.pick(4, 16)]:
        _Ad, dst = fresh(da, 40, 10_000, 10)
        _As, src = fresh(sb, 100, 10_000, 25, shift=(rng.randint(-5, 5), rng.randint(-5, 5)))
        dense_dep_oracle(R, dst, src, {"dst_crs": da, "src_crs": sb, "spec_d": specs[da][:120], "spec_s": specs[sb][:120],
                                       "codeless": True}, sig="codeless|deps")
        # the graph of overlapping rasters must not be empty
        _Ad, dst2 = fresh(da, 40, 10_000, 10)
        _As, src2 = fresh(sb, 100, 10_000, 25)
        deps = guarded(lambda: dst2.grid_intersect(src2))
        R.oracle(not isinstance(deps, str) and sum(len(v) for v in deps.values()) >= 16, "grid-intersect-misses-dependency",
                 {"dst_crs": da, "src_crs": sb, "codeless": True, "nested": True},
                 f"a 400 km raster inside a 1000 km raster around the same point: graph {str(deps)[:160]}", sig="codeless|deps-nonempty")


def gi_stream(R: Run, geom, GeoBox, GeoboxTiles, Affine):
    spec_validation(R)
    extents(R, GeoBox, GeoboxTiles, Affine)
    grid_intersect_public(R, geom, GeoBox, GeoboxTiles, Affine)
    tiles_public(R, geom, GeoBox, GeoboxTiles, Affine)
    shape_queries(R, geom, GeoBox, GeoboxTiles, Affine)
    footprint_params(R, geom, GeoBox, GeoboxTiles, Affine)
    cross_pipeline(R, geom, GeoBox, GeoboxTiles, Affine)
    codeless_crs(R, geom, GeoBox, GeoboxTiles, Affine)
    R.assumptions.append("Spec/ConvexDisjoint (separating-axis test) == shapely `disjoint` on convex quadrilaterals with "
                         "positive area: validated on every run (op cvx) and, implicitly, by every same-CRS gi / tq case")


def replay_gi(GeoBox, GeoboxTiles, Affine, case) -> int:
    def pa(s):
        return Affine(*[float(Fraction(v)) for v in s.split(";")])

    def sp(s):
        return (s[0], tuple(s[1]), tuple(s[2]))

    dspec, sspec = sp(case["dspec"]), sp(case["sspec"])
    D, S = pa(case["D"]), pa(case["S"])
    dst, src = mk(GeoBox, GeoboxTiles, dspec, D, case["crs"][0]), mk(GeoBox, GeoboxTiles, sspec, S, case["crs"][1])
    deps = dst.grid_intersect(src)
    print("grid_intersect:", deps)
    need = brute_pairs(dspec, sspec, D, S)
    print("overlapping (dst, src) tile pairs:", need)
    miss = [(d, s) for d, s in need if s not in deps.get(d, [])]
    print("missing:", miss)
    return 1 if miss else 0


# ------------------------------------------------------------------ query geometries of every SHAPE
def _shapes(rng, nx, ny):
    """query shapes in pixel coordinates (quarter lattice) for an image of nx x ny pixels: concave polygons, polygons
    with holes, multi-part geometries whose parts' bounding boxes overlap / interleave / nest, lines, points, collections.
    Returns (name, shapely geometry)."""
    import shapely.geometry as sg

    def q(v):
        return round(v * 4) / 4

    W, H = float(nx), float(ny)

    def rect(x0, y0, x1, y1):
        return sg.box(q(min(x0, x1)), q(min(y0, y1)), q(max(x0, x1)), q(max(y0, y1)))

    def small(cx, cy, s=None):
        s = s if s is not None else rng.choice([0.25, 0.5, 1.0])
        return rect(cx - s, cy - s, cx + s, cy + s)

    corner = rng.choice([(W - 0.75, 0.75), (0.75, 0.75), (W - 0.75, H - 0.75), (0.75, H - 0.75)])
    out = []
    # big triangle over one half (its bbox is the whole image) + a small square in the opposite corner
    tris = {(W - 0.75, 0.75): [(0, q(H * 0.05)), (0, H), (q(W * 0.95), H)], (0.75, 0.75): [(W, q(H * 0.05)), (W, H), (q(W * 0.05), H)],
            (W - 0.75, H - 0.75): [(0, 0), (q(W * 0.95), 0), (0, q(H * 0.95))], (0.75, H - 0.75): [(W, 0), (q(W * 0.05), 0), (W, q(H * 0.95))]}
    tri = sg.Polygon(tris[corner])
    sq = small(*corner, s=0.5)
    out.append(("tri+square", sg.MultiPolygon([tri, sq])))
    out.append(("square+tri", sg.MultiPolygon([sq, tri])))
    # L / C shapes: thin arms along two / three sides, the cavity holds further parts
    t = rng.choice([0.5, 1.0, 1.25])
    L = sg.Polygon([(0, 0), (W, 0), (W, t), (t, t), (t, H), (0, H)])
    C = sg.Polygon([(0, 0), (W, 0), (W, t), (t, t), (t, H - t), (W, H - t), (W, H), (0, H)])
    inner = small(q(W * rng.uniform(0.4, 0.9)), q(H * rng.uniform(0.3, 0.7)))
    out.append(("L", L))
    out.append(("L+inner", sg.MultiPolygon([L, inner])))
    out.append(("C+inner", sg.MultiPolygon([C, inner])))
    out.append(("inner+C", sg.MultiPolygon([inner, C])))
    # two interlocking Ls (bounding boxes nearly equal)
    L2 = sg.Polygon([(W, H), (q(W * 0.3), H), (q(W * 0.3), H - t), (W - t, H - t), (W - t, q(H * 0.3)), (W, q(H * 0.3))])
    if L.is_valid and L2.is_valid and not L.intersects(L2):
        out.append(("L+L", sg.MultiPolygon([L, L2])))
    # comb: spine + teeth, little parts in the gaps between the teeth
    k = rng.randint(2, 4)
    pitch = W / (2 * k)
    teeth = [rect(2 * i * pitch, 0, (2 * i + 1) * pitch, H * 0.8) for i in range(k)]
    from shapely.ops import unary_union

    comb = unary_union(teeth + [rect(0, H * 0.8, W, H)])
    gaps = [small((2 * i + 1.5) * pitch, H * rng.uniform(0.1, 0.6), 0.25) for i in range(k - 1)]
    gaps = [g for g in gaps if not g.intersects(comb)]
    if comb.geom_type == "Polygon" and gaps:
        out.append(("comb+gaps", sg.MultiPolygon([comb] + gaps)))
        out.append(("gaps+comb", sg.MultiPolygon(gaps + [comb])))
    # ring (polygon with a hole) with and without a part inside the hole
    if W >= 3 and H >= 3:
        ring = sg.Polygon([(0, 0), (W, 0), (W, H), (0, H)], [[(t, t), (W - t, t), (W - t, H - t), (t, H - t)]])
        isl = small(q(W / 2), q(H / 2), 0.25)
        out.append(("ring", ring))
        if ring.is_valid and not isl.intersects(ring):
            out.append(("ring+island", sg.MultiPolygon([ring, isl])))
    # scattered little parts (bounding boxes disjoint, interleaved or overlapping), some outside the image
    n = rng.randint(2, 6)
    parts = []
    for _ in range(n):
        p = small(q(rng.uniform(-1, W + 1)), q(rng.uniform(-1, H + 1)))
        if all(not p.intersects(o) for o in parts):
            parts.append(p)
    if len(parts) >= 2:
        out.append(("scattered", sg.MultiPolygon(parts)))
    # lines and points: a zigzag, a multi-line whose parts' boxes overlap, points
    zig = sg.LineString([(q(W * i / 4), q(H * (0.1 if i % 2 else 0.9))) for i in range(5)])
    diag = sg.LineString([(0.25, 0.25), (W - 0.25, H - 0.25)])
    dot = sg.LineString([corner, (corner[0] + 0.25, corner[1])])
    out.append(("zigzag", zig))
    out.append(("multiline", sg.MultiLineString([diag, dot])))
    out.append(("multiline-rev", sg.MultiLineString([dot, diag])))
    pts = [sg.Point(q(rng.uniform(0, W)) + 0.125, q(rng.uniform(0, H)) + 0.125) for _ in range(rng.randint(1, 4))]
    out.append(("multipoint", sg.MultiPoint(pts)))
    out.append(("collection", sg.GeometryCollection([tri, dot, pts[0]])))
    out.append(("collection-rev", sg.GeometryCollection([pts[0], dot, tri])))
    return [(n_, g) for n_, g in out if g.is_valid and not g.is_empty]


def _need_and_extra(q, polys, got, pix_area, shrink):
    """tiles the query reaches strictly inside (positive-area overlap for polygonal parts, a piece of positive length
    inside the shrunken tile for lines, a point inside the shrunken tile) must be returned; returned tiles must not be
    disjoint from the query"""
    from shapely.ops import unary_union

    comps = list(q.geoms) if hasattr(q, "geoms") else [q]
    pa = [g for g in comps if g.geom_type == "Polygon"]
    li = [g for g in comps if g.geom_type == "LineString"]
    po = [g for g in comps if g.geom_type == "Point"]
    qa = unary_union(pa) if pa else None
    miss, extra = [], []
    for k, T in polys.items():
        if T.area == 0:
            continue
        Tin = T.buffer(-shrink)
        need = bool(qa is not None and qa.intersection(T).area > 1e-6 * pix_area)
        need = need or any(g.intersection(Tin).length > 0 for g in li) or any(g.intersects(Tin) for g in po)
        if need and k not in got:
            miss.append(k)
        if k in got and q.disjoint(T):
            extra.append(k)
    return miss, extra


def shape_queries(R: Run, geom, GeoBox, GeoboxTiles, Affine):
    """`tiles(query)` for query geometries of every shape (concave, with holes, multi-part with overlapping / nested /
    interleaved part boxes in either order, lines, points, collections), same CRS (any affine) and lon/lat against a
    UTM raster; correspondence through the model's `tilesGeom` (candidates of the WHOLE geometry's box, shapely's verdict
    for the whole geometry) and the brute-force per-tile shapely oracle"""
    import shapely.geometry as sg
    from shapely.affinity import affine_transform

    rng = R.rng
    for it in range(R.pick(30, 600)):
        spec = rnd_spec(rng)
        ny, nx = spec_dims(spec)
        if nx < 3 or ny < 3:
            continue
        mw = rng.choice(["flipy", "flipy", "id", "rot90", "shearx", "rot45s", "flipx"])
        a, b, d, e = MATS[mw]
        sres = rng.choice([1, 2, 0.5])
        Wm = Affine(a * sres, b * sres, rng.randint(-16, 16) / 2, d * sres, e * sres, rng.randint(-16, 16) / 2)
        crs = rng.choice(["EPSG:3857", "EPSG:32633"])
        gbt = mk(GeoBox, GeoboxTiles, spec, Wm, crs)
        polys = {k: tile_poly(Wm, r) for k, r in rects(spec).items()}
        pix_area = abs(Wm.determinant)
        for name, pq in _shapes(rng, nx, ny):
            wq = affine_transform(pq, [Wm.a, Wm.b, Wm.d, Wm.e, Wm.c, Wm.f])
            query = geom.Geometry(wq, crs)
            res = []

            def f():
                o = list(gbt.tiles(query))
                res.append(o)
                return idxs_s(o)

            out = guarded(f)
            case = {"spec": spec, "W": aff_s(Wm), "crs": crs, "shape": name, "wkt": wq.wkt[:400]}
            try:
                pbb = gbt.base.project(query.boundingbox.polygon).boundingbox
                yy, xx = gbt.range_from_bbox(query.boundingbox)
                flags = [bool(query.disjoint(gbt[i].extent)) for i in itertools.product(yy, xx)]
                kind, sy, sx = spec
                R.corr(f"c12 geom {ny} {nx} {tiling_tok(kind, sy)} {tiling_tok(kind, sx)} {bbox_s(pbb)} "
                       f"{list_s([bool_s(v) for v in flags])}", lambda: out, sig=f"shape|{name}|{mw}")
            except Exception as ex:  # pylint: disable=broad-except
                R.oracle(False, "tiles-query-raises", case, repr(ex), sig=f"shape-raises|{name}")
                continue
            if not res:
                R.oracle(False, "tiles-query-raises", case, out, sig=f"shape-raises|{name}")
                continue
            miss, extra = _need_and_extra(wq, polys, res[0], pix_area, 1e-3 * sres)
            R.oracle(not miss, "tiles-geom-misses-tile", case, f"{res[0]} misses {miss[:8]}", sig=f"shape-complete|{name}")
            R.oracle(not extra, "tiles-geom-returns-disjoint-tile", case, f"{res[0]} contains disjoint {extra[:8]}",
                     sig=f"shape-sound|{name}")
            R.oracle(len(res[0]) == len(set(res[0])), "tiles-geom-duplicate-tile", case, f"{res[0]}", sig="shape-dup")

    # the same shapes as lon/lat queries against a UTM raster (oracle only: footprints through pyproj)
    base = GeoBox((40, 48), Affine(100, 0, 500000, 0, -100, 6000000), "EPSG:32633")
    for _ in range(R.pick(1, 30)):
        th, tw = rng.choice([8, 10, 16]), rng.choice([8, 12, 16])
        gbt = GeoboxTiles(base, (th, tw))
        spec = ("r", (40, th), (48, tw))
        polys = {k: tile_poly(base.affine, r) for k, r in rects(spec).items()}
        for name, pq in _shapes(rng, 48, 40):
            if name.startswith("collection"):
                continue
            A_ = base.affine
            wq = affine_transform(pq, [A_.a, A_.b, A_.d, A_.e, A_.c, A_.f])
            case = {"cross": True, "tile": [th, tw], "shape": name, "wkt": wq.wkt[:400]}
            try:
                qll = geom.Geometry(wq, base.crs).to_crs("EPSG:4326")
            except Exception:  # pylint: disable=broad-except
                continue
            got = guarded(lambda: idxs_s(list(gbt.tiles(qll))))
            if got.startswith("ERR:"):
                R.oracle(False, "tiles-query-raises", case, got, sig=f"shape-raises|cross|{name}")
                continue
            gl = [tuple(int(v) for v in s.split(";")) for s in got[1:-1].split(",") if s]
            # slack of a tenth of a pixel for the round trip through lon/lat
            miss, _ = _need_and_extra(wq, {k: p.buffer(-10.0) for k, p in polys.items()}, gl, 1e4, 1e-3 * 100)
            R.oracle(not miss, "tiles-geom-misses-tile", case, f"{got} misses {miss[:8]}", sig=f"shape-complete|cross|{name}")
