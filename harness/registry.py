"""Collects per-property META dicts from harness/cXX.py (used by tools/gen_manifest.py)."""
import importlib
from pathlib import Path

ALL = [f"C{i:02d}" for i in range(1, 21)]
PENDING_REASON = "machinery for this property is not built yet in this revision (work in progress; see DESIGN.md §10)"
NOT_APPLICABLE = {}
# properties whose check the integrator has run green on the current tree (manifest claims only these)
READY = [f"C{i:02d}" for i in range(1, 21)]


def claimed():
    out = {}
    for pid in ALL:
        if pid not in READY:
            continue
        if not (Path(__file__).parent / f"{pid.lower()}.py").exists():
            continue
        mod = importlib.import_module(f"harness.{pid.lower()}")
        meta = getattr(mod, "META", None)
        if meta and meta.get("claimed"):
            out[pid] = meta
    return out
