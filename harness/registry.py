"""Per-property registration used to generate MANIFEST.json (tools/gen_manifest.py).

A property appears in CLAIMED once its Lean theorems, driver and harness module exist and
its quick check passes on the unchanged tree; everything else is listed under
not_applicable with the reason "not built yet" until then.
"""

TITLES = {}

CLAIMED = {
    "C17": {
        "text": "Lean 4 theorems (unbounded in array length, bounds, pads, scales, point magnitudes) about a "
        "hand model of the ROI helpers: normalisation selects the same elements, 3-way intersection law, "
        "shape/empty/full/centre/pad, scale down-up, region from points (containment, within image, alignment, "
        "non-finite points ignored, no magnitude bound).  The model is tied to /repo on every run by an exact "
        "behavioural correspondence (exhaustive on small lengths, random large) and the numpy-based property "
        "oracle; Spec/PySlice is itself validated against numpy each run.",
        "note": "Trusted: Lean kernel + {propext, Classical.choice, Quot.sound}; numpy slicing as the reference "
        "semantics; step != None slices are passed through by the library and not modelled.",
        "technique": "Lean 4 proof over hand model + exhaustive/random differential correspondence with real code",
        "design_ref": "DESIGN.md §4 C17",
    },
}

PENDING_REASON = "machinery for this property is not built yet in this revision (work in progress; see DESIGN.md §10)"
ALL = [f"C{i:02d}" for i in range(1, 21)]
NOT_APPLICABLE = {}
