"""C15, glue stage: the REAL `odc.geo.cog._rio` module driven against a recording stand-in for `rasterio`.

Everything `_rio.py` does between its public entry points and the GDAL calls is compared with the Lean call-trace model
(`lean/OdcGeo/Model/C15Glue.lean`): which datasets are opened (memory / path / vsimem side-cars) with exactly which creation
options, the `rasterio.Env` options around them, every `dst.write(...)` (one shot or window by window), `build_overviews`
(levels, resampling), every `rio_copy` with its keywords, the removal of an existing destination, the block-size warning, the
value returned or the exception raised — for `_write_cog`, `write_cog`, `to_cog`, `write_cog_layers`.

Independent oracles on the recorded run (no model involved): every dataset that was written holds exactly the band-first
image in every cell (whole and window-by-window writes), and every dataset is opened with the transform / CRS / size of the
GeoBox of the layer it stores.

rasterio reference semantics used by the model (`block_windows` of a tiled dataset, `MemoryFile` naming, the `Resampling`
member names, Python `dict` update / filter order) are validated against the real libraries here on every run.
"""
from __future__ import annotations

import os
import random
import shutil
import tempfile
import uuid
import warnings
from pathlib import Path

import numpy as np

from .common import Run, bool_s, list_s, opt_s

FIXED_UUID = "0a0b0c0d-1111-2222-3333-444455556666"


# --------------------------------------------------------------------------- tokens shared with the Lean driver
def vtok(k, v) -> str:
    from affine import Affine  # pylint: disable=import-outside-toplevel

    if v is None:
        return "N"
    if isinstance(v, (bool, np.bool_)):
        return bool_s(bool(v))
    if isinstance(v, (int, np.integer)):
        return f"i:{int(v)}"
    if isinstance(v, str):
        return "x:crs" if k == "crs" else f"s:{v}"
    if isinstance(v, Affine):
        return "x:transform"
    if isinstance(v, float):
        return "x:f" + repr(v).replace("-", "m")
    if isinstance(v, np.generic):
        return f"x:{v.dtype}_" + repr(v.item()).replace("-", "m")
    return "x:" + type(v).__name__


def dict_s(d, raw=False) -> str:
    items = list(d.items()) if raw else sorted(d.items())
    return "{" + ",".join(f"{k}={vtok(k, v)}" for k, v in items) + "}"


def loc_s(name: str) -> str:
    return name


# --------------------------------------------------------------------------- the recording stand-in
class Rec:
    """Observable projection of a run (same projection as the Lean driver's `fmtTrace`): datasets opened (with options and the
    GDAL configuration in effect), THAT pixels were written (not how), overview requests, copies, removal of the
    destination, the block-size warning."""

    def __init__(self, watch_path=None, watch_exists=False):
        self.ev = []
        self.env = []
        self.anon = 0
        self.datasets = []
        self.watch_path = watch_path
        self.watch_exists = watch_exists
        self.pre = lambda: None

    def poll(self):
        """an existing destination that disappeared since the last look was removed by check_write_path"""
        if self.watch_path is not None and self.watch_exists and not os.path.exists(self.watch_path):
            self.watch_exists = False
            self.ev.append(f"unlink:{self.watch_path}")

    def env_now(self) -> str:
        merged = {}
        for e in self.env:
            merged.update(e)
        return "env" + dict_s(merged)

    def add(self, s: str, with_env=True):
        self.poll()
        self.pre()
        self.ev.append(s + (self.env_now() if with_env else ""))

    def wrote(self):
        self.poll()
        self.pre()
        if not self.ev or self.ev[-1] != "written":
            self.ev.append("written")


class FakeDS:
    def __init__(self, rec: Rec, loc: str, opts: dict):
        self.rec, self.loc, self.opts = rec, loc, dict(opts)
        self.name = loc
        h, w, n = opts.get("height"), opts.get("width"), opts.get("count")
        ok = all(isinstance(v, (int, np.integer)) for v in (h, w, n))
        self.arr = np.zeros((n, h, w), dtype=opts.get("dtype", "uint8")) if ok else None
        self.hit = np.zeros((n, h, w), dtype="int32") if ok else None
        self.bad_write = None
        rec.datasets.append(self)

    def __enter__(self):
        return self

    def __exit__(self, *a):
        return False

    def close(self):
        pass

    def block_windows(self, bidx=0):  # pylint: disable=unused-argument
        from rasterio.windows import Window  # pylint: disable=import-outside-toplevel

        h, w = int(self.opts["height"]), int(self.opts["width"])
        bh, bw = int(self.opts["blockysize"]), int(self.opts["blockxsize"])
        for i in range(-(-h // bh)):
            for j in range(-(-w // bw)):
                yield (i, j), Window(j * bw, i * bh, min(bw, w - j * bw), min(bh, h - i * bh))

    def write(self, arr, indexes=None, window=None):
        arr = np.asarray(arr)
        self.rec.wrote()
        # store, as GDAL would: band list (default: all bands), optional window
        try:
            if self.arr is None:
                raise ValueError("dataset without integer size")
            if indexes is None:
                indexes = list(range(1, self.arr.shape[0] + 1)) if arr.ndim == 3 else 1
            bands = [int(indexes) - 1] if isinstance(indexes, (int, np.integer)) else [int(i) - 1 for i in indexes]
            a3 = arr[None] if arr.ndim == 2 else arr
            if window is None:
                r0, c0, hh, ww = 0, 0, self.arr.shape[1], self.arr.shape[2]
            else:
                r0, c0, hh, ww = int(window.row_off), int(window.col_off), int(window.height), int(window.width)
            if a3.shape != (len(bands), hh, ww):
                raise ValueError(f"array {a3.shape} for bands {bands} window {(r0, c0, hh, ww)}")
            for k, bi in enumerate(bands):
                self.arr[bi, r0:r0 + hh, c0:c0 + ww] = a3[k]
                self.hit[bi, r0:r0 + hh, c0:c0 + ww] += 1
        except Exception as e:  # pylint: disable=broad-except
            self.bad_write = f"{type(e).__name__}: {e}"

    def build_overviews(self, levels, resampling):
        self.rec.add(f"ovr:{list_s([int(l) for l in levels])}:{getattr(resampling, 'name', resampling)}")


class FakeMem:
    def __init__(self, rec: Rec, file_or_bytes=None, dirname=None, filename=None, ext=".tif"):  # pylint: disable=unused-argument
        self.rec = rec
        if dirname is None and filename is None:
            self.name = f"mem{rec.anon}"
            rec.anon += 1
        else:
            self.name = f"/vsimem/{dirname}/{filename}"
        self.closed = False

    def __enter__(self):
        return self

    def __exit__(self, *a):
        self.closed = True
        return False

    def close(self):
        self.closed = True

    def open(self, driver=None, **opts):
        self.rec.add(f"open:{self.name}" + dict_s({"driver": driver, **opts}))
        return FakeDS(self.rec, self.name, opts)

    def getbuffer(self):
        return memoryview(("BYTES:" + self.name).encode())


class FakeEnv:
    def __init__(self, rec: Rec, *a, **opts):  # pylint: disable=unused-argument
        self.rec, self.opts = rec, opts

    def __enter__(self):
        self.rec.env.append(self.opts)
        return self

    def __exit__(self, *a):
        if self.rec.env:
            self.rec.env.pop()
        return False


class FakeRasterio:
    def __init__(self, rec: Rec):
        self.rec = rec

    def MemoryFile(self, *a, **k):  # pylint: disable=invalid-name
        return FakeMem(self.rec, *a, **k)

    def Env(self, **opts):  # pylint: disable=invalid-name
        return FakeEnv(self.rec, **opts)

    def open(self, fp, mode="r", driver=None, **opts):
        self.rec.add(f"open:{fp}" + dict_s({"mode": mode, "driver": driver, **opts}))
        ds = FakeDS(self.rec, str(fp), opts)
        if not str(fp).startswith("/vsimem/"):
            Path(fp).write_bytes(b"FAKE-GTIFF " + str(fp).encode())
        return ds


def fake_copy(rec: Rec):
    def _copy(src, dst, **kw):
        s = src.name if hasattr(src, "name") else str(src)
        rec.add(f"copy:{s}>{dst}" + dict_s(kw))
        if not str(dst).startswith(("/vsimem/", "mem")):
            Path(dst).write_bytes(b"FAKE-COPY " + str(dst).encode())

    return _copy


def _intercept(rec: Rec):
    """Replace the EXTERNAL entry points the writer uses — rasterio.open / MemoryFile / Env, rasterio.shutil.copy, uuid.uuid4 —
    on the libraries themselves and wherever a loaded odc.geo module holds its own reference to one of them (whatever the
    local name); → undo()"""
    # pylint: disable=import-outside-toplevel
    import sys

    import rasterio
    import rasterio.io
    import rasterio.shutil

    fake = FakeRasterio(rec)
    repl = {
        id(rasterio.open): fake.open, id(rasterio.MemoryFile): fake.MemoryFile, id(rasterio.Env): fake.Env,
        id(rasterio.shutil.copy): fake_copy(rec), id(uuid.uuid4): (lambda: uuid.UUID(FIXED_UUID)),
    }
    keep_alive = [rasterio.open, rasterio.MemoryFile, rasterio.Env, rasterio.shutil.copy, uuid.uuid4]
    saved = []

    def swap(obj, name):
        cur = getattr(obj, name, None)
        if cur is not None and id(cur) in repl:
            saved.append((obj, name, cur))
            setattr(obj, name, repl[id(cur)])

    for mod, names in ((rasterio, ("open", "MemoryFile", "Env")), (rasterio.io, ("MemoryFile",)), (rasterio.shutil, ("copy",)), (uuid, ("uuid4",))):
        for name in names:
            swap(mod, name)
    for mname, mod in list(sys.modules.items()):
        if mod is not None and (mname == "odc.geo" or mname.startswith("odc.geo.")):
            for name, val in list(getattr(mod, "__dict__", {}).items()):
                if callable(val) and id(val) in repl:
                    swap(mod, name)

    def undo():
        for obj, name, cur in reversed(saved):
            setattr(obj, name, cur)
        del keep_alive[:]

    return undo


def traced(fn, watch_path=None, watch_exists=False):
    """run `fn()` with the external GDAL entry points replaced by the recording stand-in → (projection string, Rec)"""
    rec = Rec(watch_path, watch_exists)
    undo = _intercept(rec)
    try:
        with warnings.catch_warnings(record=True) as wl:
            warnings.simplefilter("always")
            n_seen = [0]

            def flush_warnings():
                for x in wl[n_seen[0]:]:
                    if "multiple of 16" in str(x.message):
                        rec.ev.append("warn")
                n_seen[0] = len(wl)

            rec.pre = flush_warnings  # warnings are interleaved with the calls
            try:
                out = fn()
                rec.poll()
                flush_warnings()
                if out is None:
                    res = "None"
                elif isinstance(out, bytes):
                    res = ("bytes:" + out.decode()[len("BYTES:"):]) if out.startswith(b"BYTES:") else "bytes:?"
                else:
                    res = f"path:{out}"
            except Exception as e:  # pylint: disable=broad-except
                rec.poll()
                flush_warnings()
                name = type(e).__name__
                res = "ERR:" + {"FileExistsError": "OSError", "IOError": "OSError"}.get(name, name)
    finally:
        undo()
    return ";".join(rec.ev) + "|" + res, rec


# --------------------------------------------------------------------------- case construction
def dst_tok(dst, exists) -> str:
    return "mem" if dst == ":mem:" else f"p|{bool_s(exists)}|{dst}"


def icomp_tok(c) -> str:
    if isinstance(c, bool):
        return bool_s(c)
    if isinstance(c, str):
        return "s:" + c
    return "d:" + dict_s(c, raw=True)


def nd_tok(v) -> str:
    return vtok("nodata", v)


def layer_tok(arr) -> str:
    gb = arr.odc.geobox
    g = "N" if gb is None else f"{gb.shape[0]};{gb.shape[1]}"
    return f"{list_s(arr.data.shape)}/{g}/{arr.dtype.name}/{bool_s(arr.dtype.kind == 'f')}/{nd_tok(arr.attrs.get('nodata'))}"


EXTRAS = [
    {}, {}, {}, {"num_threads": "ALL_CPUS"}, {"compress": "zstd", "zstd_level": 9}, {"blockxsize": 64}, {"BIGTIFF": "YES"},
    {"interleave": "band", "predictor": 1}, {"zlevel": 9}, {"nodata": 7}, {"tiled": True, "compress": None},
    {"blockxsize": 32, "blockysize": 16},
]
ICOMPS = [False, False, True, "zstd", "deflate", {"compress": "lzw"}, {"compress": "zstd", "zstd_level": 3}, {}, {"predictor": 2, "compress": "deflate"}]
RESAMPLINGS = [None, None, "nearest", "average", "Bilinear", "CUBIC", "cubic_spline", "mode", "rms", "q3", "bogus", "nearest_", "x"]
NODATAS = [None, None, 0, -9999, 255, 0.5, float("nan"), np.int16(-1), np.float32(2.5)]


def mk_pixels(rng: random.Random, shape, dtype):
    n = int(np.prod(shape))
    return (np.arange(n, dtype="int64") * 7 + rng.randint(1, 100)).astype(dtype).reshape(shape)


def content_oracle(R: Run, rec: Rec, expected, case, sig):
    """every written dataset holds exactly the band-first image it was given, each cell written (at least) once; `expected`:
    list (in open order) of (band-first array, transform, crs string) or None when not known"""
    from affine import Affine  # pylint: disable=import-outside-toplevel

    written = [d for d in rec.datasets]
    for i, ds in enumerate(written):
        exp = expected[i] if i < len(expected) else None
        if exp is None:
            continue
        want, transform, crs = exp
        msg = None
        if ds.bad_write:
            msg = f"dataset {ds.loc}: a write did not fit the dataset: {ds.bad_write}"
        elif ds.arr is None or ds.arr.shape != want.shape:
            msg = f"dataset {ds.loc}: opened as {None if ds.arr is None else ds.arr.shape}, image is {want.shape}"
        elif (ds.hit == 0).any():
            b, y, x = (int(v) for v in np.argwhere(ds.hit == 0)[0])
            msg = f"dataset {ds.loc}: {int((ds.hit == 0).sum())} cells never written, e.g. band {b + 1} ({y},{x})"
        elif not np.array_equal(ds.arr, want.astype(ds.arr.dtype), equal_nan=ds.arr.dtype.kind == "f"):
            bad = ds.arr != want
            b, y, x = (int(v) for v in np.argwhere(bad)[0])
            msg = f"dataset {ds.loc}: {int(bad.sum())} cells differ, e.g. band {b + 1} ({y},{x}): image {want[b, y, x]!r} written {ds.arr[b, y, x]!r}"
        R.oracle(msg is None, "glue:written-pixels-differ", case, msg or "", sig=sig, trivial=want.size <= 1)
        t_ok = isinstance(ds.opts.get("transform"), Affine) and tuple(ds.opts["transform"])[:6] == tuple(transform)[:6] and ds.opts.get("crs") == crs
        R.oracle(t_ok, "glue:dataset-georeference-differs", case,
                 f"dataset {ds.loc} opened with transform {ds.opts.get('transform')!r} crs {str(ds.opts.get('crs'))[:40]!r}, layer has {tuple(transform)[:6]} {crs[:40]!r}",
                 sig=sig)


def band_first(pix, g):
    """independent reference of the layout rule on the numbers: band-last when the first two axes are the GeoBox shape"""
    if pix.ndim == 2:
        return pix[None]
    return pix.transpose(2, 0, 1) if tuple(pix.shape[:2]) == tuple(g) else pix


def run_glue(R: Run):
    # pylint: disable=import-outside-toplevel,too-many-locals,too-many-statements,too-many-branches,protected-access
    import rasterio
    import xarray as xr
    from affine import Affine
    from odc.geo.cog import _rio as RIO
    from odc.geo.geobox import GeoBox
    from odc.geo.xr import wrap_xr

    rng = R.rng
    workdir = tempfile.mkdtemp(prefix="c15g-")
    counter = [0]

    def private(name):
        """a private helper of _rio.py, looked up defensively: a tree that no longer has it under this name only loses the
        direct stream (the public entry points still reach the code), with a note in the evidence"""
        fn_ = getattr(RIO, name, None)
        if fn_ is None:
            R.notes.append(f"odc.geo.cog._rio.{name} not found: its direct correspondence stream is skipped (public entry points still compared)")
        return fn_

    write_cog_impl = private("_write_cog")
    memfiles_ovr = private("_memfiles_ovr")
    default_cog_opts = private("_default_cog_opts")
    norm_compression_opts = private("_norm_compression_opts")
    without = getattr(RIO, "_without", None)

    def new_dst(kind):
        """→ (dst argument, exists flag, overwrite flag)"""
        if kind == "mem":
            return ":mem:", False, False
        counter[0] += 1
        p = os.path.join(workdir, f"g{counter[0]}.tif")
        exists = kind.startswith("exists")
        if exists:
            with open(p, "wb") as f:
                f.write(b"pre-existing")
        return p, exists, kind in ("exists_overwrite", "new_overwrite")

    def mk_gbox(h, w, k=0):
        A = [Affine(10, 0, 100, 0, -10, 500), Affine(0.5, 0.125, -3, 0.25, -0.5, 7), Affine(2, 0, 0, 0, 2, 0)][k % 3]
        return GeoBox((h, w), A, ["epsg:3857", "epsg:32755", "epsg:4326"][k % 3])

    try:
        # ---- reference semantics: rasterio block_windows / MemoryFile names / Resampling members, Python dicts
        for (h, w, bh, bw) in [(5, 7, 16, 16), (40, 33, 16, 16), (33, 40, 16, 32), (64, 64, 32, 32), (65, 1, 16, 16), (1, 100, 16, 48),
                               (48, 96, 48, 32)] + [(rng.randint(1, 130), rng.randint(1, 130), 16 * rng.randint(1, 4), 16 * rng.randint(1, 4))
                                                    for _ in range(R.pick(12, 80))]:
            def real_windows():
                with rasterio.MemoryFile() as mem:
                    with mem.open(driver="GTiff", width=w, height=h, count=1, dtype="uint8", tiled=True, blockxsize=bw, blockysize=bh) as ds:
                        return list_s([f"{int(x.row_off)}:{int(x.col_off)}:{int(x.height)}:{int(x.width)}" for _, x in ds.block_windows()])

            R.corr(f"c15 blockwins {h} {w} {bh} {bw}", real_windows, sig="spec-block-windows")
            R.corr(f"c15 cover {h} {w} {bh} {bw}", lambda: "1 1", sig="spec-block-windows|cover")
        for n in (1, 2, 3, 5) if memfiles_ovr is not None else ():
            def real_names():
                with memfiles_ovr(n) as mm:
                    names = [m.name for m in mm]
                d, f = names[0][len("/vsimem/"):].split("/", 1)
                return list_s([x.replace(d, "DD").replace(f[:-4], "FF") for x in names])

            R.corr(f"c15 memfiles DD-FF {n}", real_names, sig="memfiles-ovr")
        R.corr("c15 memfiles 0a-1b-2c-3d 2", lambda: list_s(["/vsimem/0a/1b-2c-3d.tif", "/vsimem/0a/1b-2c-3d.tif.ovr"]), sig="memfiles-ovr")
        R.corr("c15 resampnames", lambda: list_s(rasterio.warp.Resampling.__members__.keys()), sig="spec-resampling-names")
        from odc.geo.warp import resampling_s2rio

        for name in RESAMPLINGS[2:] + ["NEAREST", "Sum", "max", "min", "med", "q1", "gauss", "lanczos", "linear", "near"]:
            R.corr(f"c15 resamp {name}", lambda: resampling_s2rio(name).name, sig="resampling_s2rio")
        for _ in range(R.pick(60, 600)):
            keys = ["a", "b", "c", "compress", "zlevel", "nodata"]
            a = {k: rng.randint(0, 5) for k in rng.sample(keys, rng.randint(0, 5))}
            b = {k: rng.choice([None, True, "s", 9]) for k in rng.sample(keys, rng.randint(0, 4))}
            R.corr(f"c15 dupd {dict_s(a, raw=True)} {dict_s(b, raw=True)}", lambda: dict_s({**a, **b}, raw=True), sig="spec-dict|update")
            skip = rng.sample(keys, rng.randint(0, 3))
            R.corr(f"c15 dwithout {dict_s(a, raw=True)} {list_s(skip)}", lambda: dict_s({k: v for k, v in a.items() if k not in skip}, raw=True), sig="spec-dict|without")
            if without is not None:
                R.corr(f"c15 dwithout {dict_s(a, raw=True)} {list_s(skip)}", lambda: dict_s(without(a, *skip), raw=True), sig="_without")
        for b_ in (16, 17, 512, 100) if default_cog_opts is not None else ():
            for (w, h) in [(0, 0), (5, 600), (600, 5), (512, 512), (33, 47)]:
                for other in ({}, {"nodata": None}, {"nodata": 3, "compress": "LZW"}, {"tiled": False, "x": 1}):
                    R.corr(f"c15 defopts {b_} {w} {h} {bool_s(w % 2 == 0)} {dict_s(other, raw=True)}",
                           lambda: dict_s(default_cog_opts(blocksize=b_, shape=(h, w), is_float=w % 2 == 0, **other), raw=True),
                           sig="default_cog_opts|dict")
        for c in ICOMPS if norm_compression_opts is not None else ():
            R.corr(f"c15 ncompd {icomp_tok(c)}", lambda: dict_s(norm_compression_opts(c), raw=True), sig="norm_compression|dict")

        # ---- does the recording stand-in fit this tree?  One plain to_cog under interception: if the writer reaches GDAL some
        # other way (the stand-in sees no dataset / the result is not the stand-in's buffer) the call-trace streams are skipped
        # with a note — the round-trip stage judges the behaviour in any case
        probe_xx = wrap_xr(np.arange(12, dtype="uint8").reshape(3, 4), mk_gbox(3, 4))
        try:
            probe_out, probe_rec = traced(lambda: RIO.to_cog(probe_xx, blocksize=16))
        except Exception as e:  # pylint: disable=broad-except
            probe_out, probe_rec = f"EXC {type(e).__name__}: {e}", None
        if not (probe_out.startswith("open:mem0{") and probe_out.endswith("|bytes:mem0") and probe_rec is not None and len(probe_rec.datasets) == 1):
            R.notes.append("call-trace stage skipped: the recording stand-in for rasterio does not intercept this tree's GDAL calls "
                           f"(probe gave {probe_out[:120]!r})")
            return

        # ---- _write_cog: the option cross-product on small images (exhaustive), then random
        def wcog_case(shape, g, dtype, dst_kind, nodata, blocksize, resampling, levels, ovr_bs, windowed, icomp, extra, sig, gk=0):
            if write_cog_impl is None:
                return
            pix = mk_pixels(rng, shape, dtype)
            gb = None if g is None else mk_gbox(g[0], g[1], gk)
            dst, exists, overwrite = new_dst(dst_kind)
            kw = dict(extra)
            if nodata is not None:
                kw["nodata"] = nodata
            nodata = kw.get("nodata")  # a `nodata` among the extra options binds to the named parameter of `_write_cog`
            if blocksize is not None:
                kw["blocksize"] = blocksize
            if resampling is not None:
                kw["overview_resampling"] = resampling
            if levels is not None:
                kw["overview_levels"] = levels
            if ovr_bs is not None:
                kw["ovr_blocksize"] = ovr_bs
            if windowed:
                kw["use_windowed_writes"] = True
            if icomp is not False:
                kw["intermediate_compression"] = icomp
            extra_m = {k: v for k, v in extra.items() if k != "nodata"}
            line = (f"c15 wcog {list_s(shape)} {'N' if g is None else f'{g[0]};{g[1]}'} {dtype} {bool_s(np.dtype(dtype).kind == 'f')} "
                    f"{dst_tok(dst, exists)} {nd_tok(nodata)} {bool_s(overwrite)} {opt_s(blocksize)} "
                    f"{'N' if resampling is None else 's:' + resampling} {opt_s(levels, list_s)} {opt_s(ovr_bs)} {bool_s(windowed)} "
                    f"{icomp_tok(icomp)} {dict_s(extra_m, raw=True)}")
            box = {}

            def f():
                out, rec = traced(lambda: write_cog_impl(pix, gb, dst, overwrite=overwrite, **kw), dst if dst != ":mem:" else None, exists)
                box["rec"] = rec
                return out

            out = R.corr(line, f, sig=sig)
            case = {"fn": "_write_cog", "line": line}
            if "rec" in box and gb is not None and not out.endswith(("ERR:ValueError", "ERR:AssertionError", "ERR:OSError")):
                content_oracle(R, box["rec"], [(band_first(pix, g), gb.transform, str(gb.crs))], case, sig)
            if dst != ":mem:":
                # overwrite guard, judged on the file system: untouched with an error, else replaced
                now = open(dst, "rb").read() if os.path.exists(dst) else None
                if exists and not overwrite:
                    R.oracle(now == b"pre-existing" and out.endswith("ERR:OSError") or not out.endswith(("OSError", dst)) and now == b"pre-existing",
                             "overwrite-guard-touched-file", case, f"existing destination, overwrite=False: content now {now!r}, result {out[-40:]}", sig=sig)
                elif out.endswith("path:" + dst):
                    R.oracle(now is not None and now != b"pre-existing", "destination-not-written", case, f"content now {now!r}", sig=sig)
                if os.path.exists(dst):
                    os.unlink(dst)

        n = 0
        for dst_kind in ("mem", "new", "exists_overwrite", "exists_keep", "new_overwrite"):
            for levels in (None, [], [2], [2, 4]):
                for windowed in (False, True):
                    for icomp in (False, True, {"compress": "lzw"}):
                        for nodata in (None, -9999):
                            n += 1
                            shape, g = [((40, 33), (40, 33)), ((2, 40, 33), (40, 33)), ((40, 33, 3), (40, 33))][n % 3]
                            wcog_case(shape, g, ["int16", "uint8", "float32"][n % 3], dst_kind, nodata, [16, None, 32, 17][n % 4],
                                      RESAMPLINGS[n % 4], levels, [None, 64][n % 2], windowed, icomp, EXTRAS[n % len(EXTRAS)],
                                      f"glue|_write_cog|{dst_kind}|levels={'default' if levels is None else len(levels)}|win={bool_s(windowed)}", gk=n)
        # default levels on both sides of 512 (the stand-in makes big images cheap), every layout
        for (h, w) in [(511, 512), (512, 511), (512, 512), (513, 600), (600, 513), (511, 511)]:
            for lay in range(3):
                shape = [(h, w), (2, h, w), (h, w, 3)][lay]
                wcog_case(shape, (h, w), "uint8", ["mem", "new"][(h + lay) % 2], None, [None, 256, 512][lay], None, None, None, lay == 1, False, {},
                          f"glue|_write_cog|threshold|{'big' if min(h, w) >= 512 else 'small'}")
        # layouts that must be refused, ambiguous cubes, missing geobox, bad resampling with an existing destination
        for shape, g in [((4, 5), (5, 4)), ((3, 4, 5), (3, 5)), ((4, 4, 4), (4, 4)), ((6,), (6, 1)), ((2, 2, 2, 2), (2, 2)), ((4, 5), None),
                         ((2, 4, 5), None), ((7,), None), ((3, 4, 5), (4, 5)), ((4, 5, 3), (4, 5)), ((5, 5, 3), (5, 5)), ((3, 5, 5), (5, 5))]:
            for dst_kind in ("mem", "exists_overwrite", "exists_keep"):
                wcog_case(shape, g, "int16", dst_kind, None, 16, None, [], None, False, False, {}, "glue|_write_cog|layout-" + ("none" if g is None else "edge"))
        for rs in ("bogus", "x", "nearest_", "MODE", "Cubic_Spline"):
            for dst_kind in ("mem", "exists_overwrite", "exists_keep", "new"):
                for levels in ([], [2]):
                    wcog_case((20, 20), (20, 20), "uint8", dst_kind, None, 20, rs, levels, None, False, False, {}, "glue|_write_cog|resampling")
        for _ in range(R.pick(300, 4000)):
            h, w = rng.choice([1, 2, 15, 16, 17, 33, 48, 64, 70]), rng.choice([1, 3, 16, 31, 32, 50, 64, 90])
            lay = rng.randrange(3)
            nb = rng.randint(1, 4)
            shape = [(h, w), (nb, h, w), (h, w, nb)][lay]
            g = (h, w) if rng.random() < 0.93 else rng.choice([(w, h), (h, w + 1), None])
            wcog_case(shape, g, rng.choice(["uint8", "int16", "float32", "float64", "int8"]), rng.choice(["mem", "mem", "new", "exists_overwrite", "exists_keep", "new_overwrite"]),
                      rng.choice(NODATAS), rng.choice([None, 16, 17, 32, 48, 100, 512, 1]), rng.choice(RESAMPLINGS), rng.choice([None, [], [2], [2, 4], [3]]),
                      rng.choice([None, None, 64, 128]), rng.random() < 0.4, rng.choice(ICOMPS), rng.choice(EXTRAS), "glue|_write_cog|random", gk=rng.randrange(3))

        # ---- public entry points: write_cog / to_cog / accessor / write_cog_layers, with real DataArrays
        def mk_xx(shape, g, dtype, attrs_nodata, gk=0, geo=True):
            pix = mk_pixels(rng, shape, dtype)
            if not geo:
                return xr.DataArray(pix, attrs={} if attrs_nodata is None else {"nodata": attrs_nodata}), pix
            kw = {"time": [f"20{i:02d}-01-01" for i in range(shape[0])]} if len(shape) == 3 and tuple(shape[1:]) == tuple(g) and tuple(shape[:2]) != tuple(g) else {}
            return wrap_xr(pix, mk_gbox(g[0], g[1], gk), nodata=attrs_nodata, **kw), pix

        def halves(xx, n):
            out, cur = [], xx
            ydim = xx.odc.ydim
            for _ in range(n):
                sl = [slice(None)] * cur.ndim
                sl[ydim], sl[ydim + 1] = slice(None, None, 2), slice(None, None, 2)
                cur = cur[tuple(sl)]
                out.append(cur)
            return out

        def entry_case(which, xx, dst_kind, kw, overviews, sig, ovs_container="gen"):
            dst, exists, overwrite = new_dst("mem" if which in ("to_cog", "acc_to_cog") else dst_kind)
            kw = dict(kw)
            extra = {k: v for k, v in kw.items() if k not in ("blocksize", "ovr_blocksize", "overview_resampling", "overview_levels",
                                                               "use_windowed_writes", "intermediate_compression")}
            if which == "write_cog_layers":
                layers = [xx] + (overviews or [])
                if kw.pop("_empty", False):
                    layers = []
                    extra.pop("_empty", None)
                line = (f"c15 wlayers {'+'.join(layer_tok(l) for l in layers) or 'E'} {dst_tok(dst, exists)} {bool_s(overwrite)} {opt_s(kw.get('blocksize'))} "
                        f"{opt_s(kw.get('ovr_blocksize'))} {icomp_tok(kw.get('intermediate_compression', False))} {bool_s(kw.get('use_windowed_writes', False))} "
                        f"{dict_s(extra, raw=True)} {FIXED_UUID}")
                call = lambda: RIO.write_cog_layers(iter(layers), dst, overwrite=overwrite, **kw)
            else:
                m_which = "to_cog" if which in ("to_cog", "acc_to_cog") else "write_cog"
                ovs_tok = "N" if overviews is None else ("+".join(layer_tok(l) for l in overviews) or "E")
                rs = kw.get("overview_resampling")
                line = (f"c15 wentry {m_which} {layer_tok(xx)} {dst_tok(dst, exists)} {bool_s(overwrite)} {opt_s(kw.get('blocksize'))} {opt_s(kw.get('ovr_blocksize'))} "
                        f"{ovs_tok} {'N' if rs is None else 's:' + rs} {opt_s(kw.get('overview_levels'), list_s)} {bool_s(kw.get('use_windowed_writes', False))} "
                        f"{icomp_tok(kw.get('intermediate_compression', False))} {dict_s(extra, raw=True)} {FIXED_UUID}")
                if overviews is not None:
                    kw["overviews"] = {"gen": lambda: (o for o in overviews), "list": lambda: list(overviews), "tuple": lambda: tuple(overviews),
                                       "iter": lambda: iter(tuple(overviews))}[ovs_container]()
                if which == "to_cog":
                    call = lambda: RIO.to_cog(xx, **kw)
                elif which == "acc_to_cog":
                    call = lambda: xx.odc.to_cog(**kw)
                elif which == "write_cog":
                    call = lambda: RIO.write_cog(xx, dst, overwrite=overwrite, **kw)
                else:
                    call = lambda: xx.odc.write_cog(dst, overwrite=overwrite, **kw)
                layers = [xx] + (overviews or []) if overviews is not None else [xx]
            box = {}

            def f():
                out, rec = traced(call, dst if dst != ":mem:" else None, exists)
                box["rec"] = rec
                return out

            # `nodata=None` spelled out on the supplied-overviews path (finding F65, repaired by 4344a79: "not given", as on the
            # direct path) is part of the correspondence like every other point; the oracle below keeps its own key for it
            none_on_layers = "nodata" in kw and kw["nodata"] is None and (which == "write_cog_layers" or overviews is not None)
            out = R.corr(line, f, sig=sig + ("|kwNone" if none_on_layers else ""))
            case = {"fn": which, "line": line}
            if "rec" in box and "ERR:" not in out and layers and all(l.odc.geobox is not None for l in layers):
                exp = [(band_first(np.asarray(l.data), l.odc.geobox.shape), l.odc.geobox.transform, str(l.odc.geobox.crs)) for l in layers]
                content_oracle(R, box["rec"], exp, case, sig)
                # nodata that reaches the FINAL file: an explicit keyword wins, else the (first) array's attribute
                want_nd = kw.get("nodata") if kw.get("nodata") is not None else xx.attrs.get("nodata")
                copies = [e for e in box["rec"].ev if e.startswith("copy:")]
                final = copies[-1] if (overviews is not None or which == "write_cog_layers") and copies else None
                if final is not None:
                    got = dict(p.split("=", 1) for p in final[final.index("{") + 1:final.index("}")].split(",") if "=" in p).get("nodata", "N")
                    R.oracle(got == nd_tok(want_nd), "nodata-differs:explicit-none-with-supplied-overviews" if none_on_layers and want_nd is not None else "nodata-differs",
                             case, f"final copy carries nodata={got}, expected {nd_tok(want_nd)}", sig=sig + ("|kwNone" if none_on_layers else ""))
            if dst != ":mem:" and os.path.exists(dst):
                now = open(dst, "rb").read()
                if exists and not overwrite:
                    R.oracle(now == b"pre-existing", "overwrite-guard-touched-file", case, f"content now {now[:30]!r}", sig=sig)
                os.unlink(dst)

        n = 0
        for which in ("write_cog", "to_cog", "acc_write_cog", "acc_to_cog", "write_cog_layers"):
            for dst_kind in (("mem",) if which.endswith("to_cog") else ("mem", "new", "exists_overwrite", "exists_keep")):
                for ovr in ("none", "levels", "default", "supplied1", "supplied2", "supplied0"):
                    if which == "write_cog_layers" and ovr in ("levels", "default"):
                        continue
                    for attrs_nd in (None, 255):
                        for kw_nd in (None, 3, "explicit-none"):
                            n += 1
                            lay = n % 3
                            h, w = [(40, 48), (33, 20), (64, 64)][n % 3]
                            shape = [(h, w), (2, h, w), (h, w, 3)][lay]
                            xx, _ = mk_xx(shape, (h, w), ["uint8", "int16", "float32"][n % 3], attrs_nd, gk=n)
                            kw = {}
                            if kw_nd is not None:
                                kw["nodata"] = None if kw_nd == "explicit-none" else kw_nd
                            if n % 2:
                                kw["blocksize"] = [16, 32, 17][n % 3]
                            if n % 5 == 0:
                                kw["ovr_blocksize"] = 64
                            if n % 3 == 0:
                                kw["use_windowed_writes"] = True
                            if n % 4 == 1:
                                kw["intermediate_compression"] = [True, "zstd", {"compress": "lzw"}][n % 3]
                            if n % 7 == 0:
                                kw.update(rng.choice([e for e in EXTRAS if "nodata" not in e]))
                            ovs = None
                            if ovr == "levels":
                                kw["overview_levels"] = [[2], [2, 4]][n % 2]
                                if n % 2:
                                    kw["overview_resampling"] = ["average", "NEAREST", "bogus"][n % 3]
                            elif ovr == "none":
                                if which != "write_cog_layers":
                                    kw["overview_levels"] = []
                            elif ovr.startswith("supplied"):
                                ovs = halves(xx, int(ovr[-1]))
                                if which != "write_cog_layers" and n % 2:
                                    kw["overview_resampling"] = "bogus"  # not forwarded on this path: must be ignored
                            entry_case(which, xx, dst_kind, kw, ovs, f"glue|{which}|{dst_kind}|ovr={ovr}|nodata={('kwNone' if kw_nd == 'explicit-none' else 'kw') if kw_nd is not None else ('attrs' if attrs_nd is not None else 'none')}")
        # the call _tifffile.geotiff_metadata makes (C05 takes its geo tags from this writer; theorem geotiff_metadata_via_rio):
        # to_cog(xr_zeros(geobox[:2, :2]), nodata=nodata, compress=None, overview_levels=[])
        for h_ in (1, 2):
            for w_ in (1, 2):
                for nd_ in (None, 255, -9999.0):
                    xx_, _ = mk_xx((h_, w_), (h_, w_), "float64", None, gk=h_ + w_)
                    entry_case("to_cog", xx_, "mem", {"nodata": nd_, "compress": None, "overview_levels": []}, None, "glue|geotiff_metadata-call")
        # GCP geoboxes as writer input (model writeCogGcp): `_write_cog` directly and `to_cog` / `write_cog` on an array registered
        # by ground control points — refused with AttributeError after the guard / resampling check / warning, GDAL never called
        try:
            from odc.geo.gcp import GCPGeoBox, GCPMapping
        except ImportError:
            GCPGeoBox = None
        if GCPGeoBox is not None:
            def mk_gcp(h_, w_):
                lin_ = mk_gbox(h_, w_)
                pp_ = np.array([(0, 0), (w_, 0), (0, h_), (w_, h_), (w_ / 2, h_ / 2)], dtype=float)
                return GCPGeoBox((h_, w_), GCPMapping(pp_, np.array([lin_.transform * (x_, y_) for x_, y_ in pp_]), "epsg:3857"))

            n = 0
            for dst_kind in ("mem", "new", "exists_overwrite", "exists_keep"):
                for bs_, rs_, shape_ in ((16, None, (6, 8)), (17, "average", (2, 6, 8)), (None, "bogus", (6, 8, 3)), (20, None, (8, 6))):
                    n += 1
                    gg_ = mk_gcp(6, 8)
                    pix_ = mk_pixels(rng, shape_, "uint8")
                    dst, exists, overwrite = new_dst(dst_kind)
                    kw_ = {}
                    if bs_ is not None:
                        kw_["blocksize"] = bs_
                    if rs_ is not None:
                        kw_["overview_resampling"] = rs_
                    line = (f"c15 wcoggcp {list_s(shape_)} 6;8 uint8 F {dst_tok(dst, exists)} N {bool_s(overwrite)} {opt_s(bs_)} "
                            f"{'N' if rs_ is None else 's:' + rs_} N N F F {{}}")
                    if write_cog_impl is not None:
                        R.corr(line, lambda: traced(lambda: write_cog_impl(pix_, gg_, dst, overwrite=overwrite, **kw_), dst if dst != ":mem:" else None, exists)[0],
                               sig=f"glue|gcp-geobox|_write_cog|{dst_kind}")
                        if dst != ":mem:" and exists and not os.path.exists(dst):
                            open(dst, "wb").write(b"pre-existing")
                    if shape_ == (6, 8):
                        xx_ = wrap_xr(pix_, gg_)
                        if type(xx_.odc.geobox).__name__ == "GCPGeoBox":
                            call_ = (lambda: RIO.to_cog(xx_, **kw_)) if dst == ":mem:" else (lambda: RIO.write_cog(xx_, dst, overwrite=overwrite, **kw_))
                            R.corr(line, lambda: traced(call_, dst if dst != ":mem:" else None, exists)[0], sig=f"glue|gcp-geobox|public|{dst_kind}")
                    if dst != ":mem:" and os.path.exists(dst):
                        os.unlink(dst)
        # intermediate_compression dicts that carry NAMED parameters of _write_cog on the supplied-overviews path (model
        # writeCogLayersFull: overwrite / ovr_blocksize / overview_resampling bind to parameters of the first pass; blocksize /
        # nodata / use_windowed_writes as before); a duplicate keyword (overview_levels) is a TypeError — pinned
        geo2_, _ = mk_xx((33, 20), (33, 20), "int16", 5)
        ovs2_ = halves(geo2_, 1)
        for ic_ in ({"compress": "lzw", "overwrite": True}, {"ovr_blocksize": 64, "compress": "zstd"}, {"overview_resampling": "average"},
                    {"overview_resampling": "bogus"}, {"overwrite": True, "ovr_blocksize": 32, "overview_resampling": "mode", "blocksize": 48, "zlevel": 1}):
            for dst_kind in ("mem", "exists_overwrite"):
                dst, exists, overwrite = new_dst(dst_kind)
                layers_ = [geo2_] + ovs2_
                line = (f"c15 wlayersfull {'+'.join(layer_tok(l) for l in layers_)} {dst_tok(dst, exists)} {bool_s(overwrite)} N N {icomp_tok(ic_)} F {{}} {FIXED_UUID}")
                R.corr(line, lambda: traced(lambda: RIO.write_cog_layers(layers_, dst, overwrite=overwrite, intermediate_compression=dict(ic_)),
                                            dst if dst != ":mem:" else None, exists)[0], sig="glue|write_cog_layers|ic-named-parameters")
                if dst != ":mem:" and os.path.exists(dst):
                    os.unlink(dst)
        dup_ = traced(lambda: RIO.write_cog_layers([geo2_] + ovs2_, ":mem:", intermediate_compression={"overview_levels": [2]}))[0]
        R.oracle(dup_.endswith("|ERR:TypeError"), "ic-duplicate-keyword-not-refused", {"fn": "write_cog_layers", "intermediate_compression": {"overview_levels": [2]}},
                 f"a first-pass keyword that duplicates an explicit argument used to be a TypeError; now: {dup_[-80:]}", sig="pin|ic-duplicate-keyword")
        # falsy-but-meaningful spellings of the entry options, through the PUBLIC write_cog / to_cog, on both sides of the 512 px
        # default-overview threshold: overviews=[] / () / iter(()) is "supplied, none" (the supplied-overviews path with the image
        # alone: NO computed pyramid), overview_levels=[] is "no overviews", overview_levels=None is the default pyramid;
        # nodata 0 / 0.0 is a nodata value, blocksize given, overwrite False spelled out
        n = 0
        for (h_, w_) in ((511, 600), (512, 512), (600, 513), (40, 48)):
            big_, _ = mk_xx((h_, w_), (h_, w_), "uint8", None, gk=h_)
            for which in ("write_cog", "to_cog", "acc_write_cog", "acc_to_cog"):
                for ovs_, cont_, lv_ in (([], "list", "absent"), ([], "tuple", "absent"), ([], "iter", "absent"), ([], "list", []), (None, "gen", []),
                                         (None, "gen", "absent"), (None, "gen", None), ([], "tuple", None)):
                    n += 1
                    kw = {}
                    if lv_ != "absent":
                        kw["overview_levels"] = lv_
                    if n % 3 == 0:
                        kw["nodata"] = [0, 0.0][n % 2]
                    if n % 4 == 0:
                        kw["blocksize"] = [256, 512][n % 2]
                    entry_case(which, big_, ["mem", "new", "exists_overwrite"][n % 3], kw, ovs_,
                               f"glue|{which}|falsy-options|{'big' if min(h_, w_) >= 512 else 'small'}|ovs={'none' if ovs_ is None else 'empty-' + cont_}|levels={lv_}",
                               ovs_container=cont_)
        # arrays without geo-registration, empty layer lists, layers of mixed registration
        plain, _ = mk_xx((8, 9), None, "uint8", 1, geo=False)
        geo, _ = mk_xx((8, 9), (8, 9), "uint8", 1)
        for which in ("write_cog", "to_cog", "acc_write_cog", "write_cog_layers"):
            for dst_kind in ("mem", "exists_overwrite", "exists_keep"):
                entry_case(which, plain, dst_kind, {}, None, "glue|no-geobox")
                entry_case(which, plain, dst_kind, {"nodata": 4}, [geo], "glue|no-geobox")
                entry_case(which, geo, dst_kind, {}, [plain], "glue|no-geobox")
        for dst_kind in ("mem", "new", "exists_overwrite", "exists_keep"):
            entry_case("write_cog_layers", geo, dst_kind, {"_empty": True}, None, "glue|write_cog_layers|empty")
        for _ in range(R.pick(150, 2000)):
            which = rng.choice(["write_cog", "to_cog", "acc_write_cog", "acc_to_cog", "write_cog_layers"])
            h, w = rng.choice([2, 15, 16, 17, 33, 48, 64, 70]), rng.choice([2, 16, 31, 32, 50, 64, 90])
            lay = rng.randrange(3)
            nb = rng.randint(1, 4)
            shape = [(h, w), (nb, h, w), (h, w, nb)][lay]
            if lay == 1 and nb == h:
                shape = (h, w)
            xx, _ = mk_xx(shape, (h, w), rng.choice(["uint8", "int16", "float32"]), rng.choice(NODATAS[:7]), gk=rng.randrange(3))
            kw = {}
            if rng.random() < 0.2:
                kw["nodata"] = None
            for k, vals in (("nodata", NODATAS), ("blocksize", [None, 16, 17, 32, 100]), ("ovr_blocksize", [None, None, 64]),
                            ("use_windowed_writes", [None, True]), ("intermediate_compression", [None] + ICOMPS[2:])):
                v = rng.choice(vals)
                if v is not None:
                    kw[k] = v
            if rng.random() < 0.3:
                kw.update(rng.choice([e for e in EXTRAS if "nodata" not in e]))
            ovs = None
            r = rng.random()
            if which == "write_cog_layers" or r < 0.35:
                ovs = halves(xx, rng.randint(0, 3))
            elif r < 0.7:
                kw["overview_levels"] = rng.choice([[], [2], [2, 4]])
            if which != "write_cog_layers" and rng.random() < 0.3:
                kw["overview_resampling"] = rng.choice(RESAMPLINGS[2:])
            entry_case(which, xx, rng.choice(["mem", "new", "exists_overwrite", "exists_keep"]), kw, ovs, f"glue|{which}|random")
    finally:
        shutil.rmtree(workdir, ignore_errors=True)

    R.assumptions += [
        "rasterio interface semantics used by the call-trace model (block_windows of a tiled dataset, MemoryFile naming, Resampling member "
        "names) and Python dict update / filter order: validated against the real libraries on every run",
        "the call-trace correspondence runs the real odc.geo.cog._rio against a recording stand-in for rasterio (no GDAL); what GDAL does "
        "with the recorded calls is covered by the round-trip stage and trusted",
    ]
