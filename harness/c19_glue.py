"""C19, growth round: the glue between the public entry points and the modelled value records
(argument normalisers of types.py, norm_crs, the constructors of the value types, == against foreign objects).

Everything here runs in-process against the real odc-geo functions and is diffed against the Lean model
(`c19 glue …` lines, Model/C19Glue.lean); where the code under test calls a normaliser internally the call is
OBSERVED (the module-level name is wrapped for the duration of one call) so that the intermediate decision, not only
the end result, is compared.  The oracles at the end judge real outputs without the model."""
from __future__ import annotations

import itertools
import math
from typing import Any, List, Optional

from . import c19_access as A
from .common import Run, bool_s, err_s, list_s


class Other:
    """an object the normalisers know nothing about: not iterable, no .coords, not a number"""

    def __repr__(self):
        return "Other()"


OTHERS = [Other(), Ellipsis, 1j]


class GEnc:
    def __init__(self, E):
        self.E = E
        self.crs_vars: dict = {}
        self.keep: list = []

    def arg(self, a) -> str:
        from odc.geo.geom import Geometry
        from odc.geo.types import XY

        E = self.E
        if a is None:
            return "N"
        if type(a) in (bool, int, float):
            return "n:" + E.num(a)
        if isinstance(a, XY):
            return f"x:{type(a).__name__}:{E.num(a.xy[0])}:{E.num(a.xy[1])}"
        if type(a) is tuple:
            return "t:" + list_s(E.num(v) for v in a)
        if type(a) is list:
            return "l:" + list_s(E.num(v) for v in a)
        if isinstance(a, Geometry):
            assert a.geom_type == "Point"
            if a.is_empty:
                return "p:N"
            return "p:" + list_s(E.num(float(v)) for v in a.coords[0])
        if any(a is o for o in OTHERS):
            return "O"
        raise TypeError(type(a))

    def crs_arg(self, a) -> str:
        import pyproj

        from odc.geo.crs import CRS
        from odc.geo.types import Unset

        if a is None:
            return "N"
        if isinstance(a, Unset):
            return "U"
        if isinstance(a, CRS):
            if id(a) not in self.crs_vars:
                self.crs_vars[id(a)] = len(self.crs_vars)
                self.keep.append(a)
            return f"v:{self.crs_vars[id(a)]}"
        if type(a) is str:
            assert " " not in a
            return "s:" + a
        if type(a) is int:
            return f"i:{a}"
        if isinstance(a, pyproj.CRS):
            return "p:0"
        if isinstance(a, dict):
            return "d:#d0"
        return "O"

    def xy(self, o) -> str:
        return self.E.xy(o)

    def nums(self, xs) -> str:
        return list_s(self.E.num(v) for v in xs)


def arg_sig(a: str) -> str:
    return a.split(":")[0] if ":" in a else a


# ----------------------------------------------------------------------------------------------------------------
def glue_types(R: Run, G: GEnc):
    """xy_/yx_/ixy_/iyx_/wh_/resxy_/resyx_/res_/shape_, XY accessors, Shape2d sequence protocol, == any object"""
    import shapely

    from odc.geo import geom
    from odc.geo.types import (XY, Index2d, Resolution, Shape2d, ixy_, iyx_, res_, resxy_, resyx_, shape_, wh_, xy_,
                               yx_)

    nums = [0, 1, -1, 2, True, False, 2.5, -0.0, 3.0, -7, 10 ** 12]
    xys = [xy_(1, 2), xy_(1.5, 2), xy_(-0.0, True), XY(3, 4), Resolution(1, -1), Resolution(2.5), Index2d(3, 4),
           Index2d(1.5, 2), Shape2d(3, 4), Shape2d(4, 3), Shape2d(1.5, 2), Shape2d(True, 0), Shape2d(-3, 5), Shape2d(7, 7)]
    seqs: List[Any] = []
    for n in (0, 1, 2, 3, 4):
        for t in itertools.islice(itertools.product([1, 2.5, True, -3, 0, 4, 3], repeat=n), 0, 30, 1 if n < 3 else 7):
            seqs += [tuple(t), list(t)]
    pts = [geom.point(1, 2, None), geom.point(0.5, -0.0, "EPSG:4326"), geom.Geometry(shapely.Point(1, 2, 3), None),
           geom.Geometry(shapely.Point(), None)]
    one_args = [None] + nums + xys + seqs + pts + OTHERS

    for fn, tag in ((xy_, "xy"), (yx_, "yx"), (ixy_, "ixy"), (iyx_, "iyx")):
        for a, b in itertools.product(nums, repeat=2):
            A.corr(R, f"c19 glue {tag}2 {G.E.num(a)} {G.E.num(b)}", lambda fn=fn, a=a, b=b: G.xy(fn(a, b)),
                   sig=f"glue|{tag}_(a,b)")
        for a in one_args:
            ea = G.arg(a)
            A.corr(R, f"c19 glue {tag}1 {ea}", lambda fn=fn, a=a: G.xy(fn(a)), sig=f"glue|{tag}_({arg_sig(ea)})")
            # the second argument given as None is the one-argument form
            A.corr(R, f"c19 glue {tag}1 {ea}", lambda fn=fn, a=a: G.xy(fn(a, None)), sig=f"glue|{tag}_({arg_sig(ea)},None)")
    for a, b in itertools.product(nums, repeat=2):
        A.corr(R, f"c19 glue wh {G.E.num(a)} {G.E.num(b)}", lambda a=a, b=b: G.xy(wh_(a, b)), sig="glue|wh_")
        A.corr(R, f"c19 glue resxy {G.E.num(a)} {G.E.num(b)}", lambda a=a, b=b: G.xy(resxy_(a, b)), sig="glue|resxy_")
        A.corr(R, f"c19 glue resyx {G.E.num(a)} {G.E.num(b)}", lambda a=a, b=b: G.xy(resyx_(a, b)), sig="glue|resyx_")
    for a in one_args:
        ea = G.arg(a)
        A.corr(R, f"c19 glue res {ea}", lambda a=a: G.xy(res_(a)), sig=f"glue|res_({arg_sig(ea)})")
        A.corr(R, f"c19 glue shape {ea}", lambda a=a: G.xy(shape_(a)), sig=f"glue|shape_({arg_sig(ea)})")

    from .common import guarded

    for v in xys + [xy_(a, b) for a, b in itertools.product(nums[:8], repeat=2)]:
        def acc(v=v):
            return (f"{guarded(lambda: G.nums(v.shape))} {guarded(lambda: G.nums(v.wh))} {G.nums(v.xy)} "
                    f"{G.nums(v.yx)}")
        A.corr(R, f"c19 glue acc {G.xy(v)}", acc, sig="glue|XY.shape/wh/xy/yx")
        # lon/lat aliases are the same fields
        R.oracle(v.lonlat == v.xy and v.latlon == v.yx and v.lon == v.x and v.lat == v.y, "XY-alias-accessors",
                 {"v": repr(v)}, "lon/lat accessors differ from x/y", trivial=True)
    shapes = [v for v in xys if isinstance(v, Shape2d)] + [Shape2d(a, b) for a, b in ((0, 0), (1, 9), (9, 1), (2.0, 3))]
    for v in shapes:
        for i in range(-3, 3):
            for t in ((), (1,), (2.5, 7)):
                def shp(v=v, i=i, t=t):
                    return (f"{len(v)} {guarded(lambda: G.nums(list(v)))} {guarded(lambda: G.E.num(v[i]))} "
                            f"{guarded(lambda: G.nums(v + t))} {guarded(lambda: G.nums(t + v))} {G.xy(v.shrink2())}")
                A.corr(R, f"c19 glue shp {G.xy(v)} {i} {G.nums(t)}", shp, sig="glue|Shape2d-sequence")
    for v in xys:
        for a in one_args:
            ea = G.arg(a)
            A.corr(R, f"c19 glue xyeq {G.xy(v)} {ea}", lambda v=v, a=a: bool_s(v == a),
                   sig=f"glue|{type(v).__name__}=={arg_sig(ea)}")
            # the reflected comparison gives the same answer whenever the left one did not raise
            try:
                l = v == a
            except ValueError:
                continue
            R.oracle(bool(a == v) == bool(l) and bool(v != a) == (not l), "XY-eq-any-not-symmetric",
                     {"v": repr(v), "other": repr(a)}, f"{v!r} == {a!r} is {l} but reversed {a == v}")


# ----------------------------------------------------------------------------------------------------------------
def glue_norm_crs(R: Run, G: GEnc):
    """norm_crs / norm_crs_or_error: which branch is taken (recognised by the outcome: the argument itself, None, what
    CRS(arg) gives, an error), the hemisphere arithmetic of the utm texts, and the EPSG numbering of the UTM zones
    the arithmetic relies on"""
    import pyproj

    from odc.geo.crs import CRS, norm_crs, norm_crs_or_error
    from odc.geo.types import Unset, xy_

    pobj = pyproj.CRS.from_epsg(3577)
    held = [CRS("EPSG:4326"), CRS("epsg:3857"), CRS(pobj.to_wkt())]
    texts = ["EPSG:4326", "epsg:3857", "EPSG:999999", "not-a-crs", "utm", "UTM", "utm-n", "Utm-S", "UTM-N", "utm-s",
             "utm-x", "utmost", "utm55s", "UTM-", "ut", "xutm", "+proj=utm+zone=55+south"]
    args = [None, Unset()] + held + texts + [4326, 3857, 999999, pobj, {"proj": "longlat", "datum": "WGS84"},
                                            4326.0, (1, 2), OTHERS[0]]
    ctxs = [None, xy_(147.2, -35.3)]

    def outcome(fn):
        """what a call did, as seen from outside: ("raise", kind) | ("none",) | ("crs", CRS)"""
        try:
            r = fn()
        except Exception as e:  # pylint: disable=broad-except
            return ("raise", err_s(e))
        return ("none",) if r is None else ("crs", r)

    def same_value(r, c) -> bool:
        return isinstance(r, CRS) and (r is c or (r == c and str(r) == str(c)))

    # Only observable behaviour is compared (no interception of internal calls): the model's plan is recognised by
    # what comes out - the argument itself (or an indistinguishable copy), None, the outcome of CRS(arg), an error
    for a in args:
        ea = G.crs_arg(a)
        is_utm = isinstance(a, str) and a.lower().startswith("utm")
        for ctx in ctxs:
            # (a context only matters to the utm texts; a CRS.utm query and a failing PROJ parse are the slow calls)
            if ctx is not None and R.quick and ((is_utm and a not in ("utm", "UTM-N", "utm-x", "utmost"))
                                                or (isinstance(a, str) and not is_utm and a != "EPSG:4326")):
                continue

            def f(a=a, ctx=ctx, ea=ea, is_utm=is_utm):
                got = outcome(lambda: norm_crs(a, ctx) if ctx is not None else norm_crs(a))
                if is_utm:
                    if got[0] == "raise":
                        return "raise:" + got[1]
                    # which zone / hemisphere is compared by `normutm` below
                    return "utm" if got[0] == "crs" and got[1].proj.utm_zone is not None else f"unexpected:{got!r}"
                if isinstance(a, CRS):
                    return "same:" + ea.split(":")[1] if got[0] == "crs" and same_value(got[1], a) else f"unexpected:{got!r}"
                if got[0] == "none":
                    return "none"
                if isinstance(a, (str, int, dict, pyproj.CRS)):
                    # `CRS(arg)`: the same outcome as constructing it directly
                    want = outcome(lambda: CRS(a))
                    ok = (got[0] == want[0] == "raise" and got[1] == want[1]) or \
                         (got[0] == want[0] == "crs" and same_value(got[1], want[1]))
                    return "build:" + ea if ok else f"differs-from-CRS(arg):{got!r}/{want!r}"
                return "raise:" + got[1] if got[0] == "raise" else f"unexpected:{got!r}"

            # the model's plan, with utm modes folded (the mode is compared through `normutm`)
            A.corr(R, f"c19 glue norm {ea} {bool_s(ctx is not None)}",
                   lambda f=f: f(), sig=f"glue|norm_crs({arg_sig(ea)}{',ctx' if ctx is not None else ''})")
    # utm texts with a context: the zone CRS.utm picked (trusted: pyproj's database) and what norm_crs made of it
    pts = [(147.2, -35.3)]
    if not R.quick:
        pts += [(10.1, 50.2), (147.2, 35.3), (10.1, -50.2), (-177.5, 10.0), (177.5, -10.0), (0.5, 0.5), (-0.5, -0.5)]
    pts += [(R.rng.uniform(-179, 179), R.rng.uniform(-70, 70)) for _ in range(R.pick(1, 4))]
    utm_texts = ["utm", "utm-n", "utm-s", "UTM-N", "Utm-S", "utm-x", "UTM", "utmost", "utm55s"]
    for lon, lat in pts:
        ctx = xy_(lon, lat)
        base = CRS.utm(ctx)
        zone = base.proj.utm_zone
        facts = f"{base.epsg if base.epsg is not None else 'N'} {bool_s(zone is not None)} " \
                f"{bool_s(bool(zone) and zone.endswith('S'))} {bool_s(bool(zone) and zone.endswith('N'))}"
        for txt in utm_texts[: R.pick(6, 9)]:
            got = outcome(lambda: norm_crs(txt, ctx))

            def f(got=got, base=base):
                if got[0] != "crs":
                    return "raise:" + got[1] if got[0] == "raise" else "none"
                # the picked zone itself, or another code
                return "utm N" if same_value(got[1], base) else f"utm {got[1].epsg}"
            A.corr(R, f"c19 glue normutm {txt} {facts}", f, sig=f"glue|norm_crs({txt.lower()},ctx)|{'S' if lat < 0 else 'N'}")
            # oracle, without the model: the hemisphere asked for, the zone of the location
            if got[0] != "crs":
                R.oracle(False, "norm_crs-utm-raises", {"text": txt, "lon": lon, "lat": lat}, f"norm_crs gave {got!r}")
                continue
            r = got[1]
            z = r.proj.utm_zone
            want_h = {"utm-n": "N", "utm-s": "S"}.get(txt.lower(), zone[-1])
            R.oracle(z is not None and z[-1] == want_h and z[:-1] == zone[:-1], "norm_crs-utm-wrong-zone",
                     {"text": txt, "lon": lon, "lat": lat},
                     f"norm_crs({txt!r}, ({lon}, {lat})) is {r} zone {z}; CRS.utm gives zone {zone}, wanted hemisphere {want_h}")
    # the EPSG numbering the ±100 arithmetic relies on (Lean: utmEpsg), against pyproj, every zone
    zone_of = {c: pyproj.CRS.from_epsg(c).utm_zone for c in range(32601, 32661)}
    zone_of.update({c: pyproj.CRS.from_epsg(c).utm_zone for c in range(32701, 32761)})
    for z in range(1, 61):
        for south in (False, True):
            for mode in ("plain", "north", "south"):
                def f(z=z, south=south, mode=mode):
                    code = (32700 if south else 32600) + z
                    if zone_of[code] != f"{z}{'S' if south else 'N'}":
                        return f"numbering-differs:{zone_of[code]}"
                    want_south = south if mode == "plain" else mode == "south"
                    q = [c for c in (code, code - 100, code + 100)
                         if zone_of.get(c) == f"{z}{'S' if want_south else 'N'}"]
                    return str(q[0]) if len(q) == 1 else f"ambiguous:{q}"
                A.corr(R, f"c19 glue utmfinal {mode} {z} {bool_s(south)}", f, sig="glue|utm-numbering")
    # CRS(obj) for CRS-like objects (anything with .to_wkt()) and for objects that are nothing of the kind: the outcome
    # is that of CRS(obj.to_wkt()) - compared as values, whichever cache entry serves them
    wkt_ = pobj.to_wkt()

    class LikeU:   # unhashable: cached under its WKT text
        __hash__ = None

        def to_wkt(self, *a, **kw):
            return wkt_

    class LikeH:   # hashable (identity): cached under itself
        def to_wkt(self, *a, **kw):
            return wkt_

    ref = CRS(wkt_)
    for kind, mk in (("like-u", LikeU), ("like-h", LikeH), ("other", Other), ("other", lambda: 4326.5)):
        def f(kind=kind, mk=mk):
            got = outcome(lambda: CRS(mk()))
            if kind == "other":
                return "raise:" + got[1] if got[0] == "raise" else f"unexpected:{got!r}"
            return "construct:s:WKT" if got[0] == "crs" and same_value(got[1], ref) else f"unexpected:{got!r}"
        A.corr(R, f"c19 glue crsctor {kind} WKT", f, sig=f"glue|CRS({kind})")
    for a in ("EPSG:4326", 3857):
        A.corr(R, f"c19 glue crsctor spec {G.crs_arg(a)}",
               lambda a=a: "construct:" + G.crs_arg(a) if same_value(CRS(a), CRS(a)) else "unexpected", sig="glue|CRS(spec)")
    # norm_crs_or_error
    for a in (None, Unset(), held[0], "EPSG:4326", "not-a-crs"):
        try:
            r = norm_crs_or_error(a)
            ok = r is not None and (r is a or not isinstance(a, CRS))
        except ValueError:
            ok = a is None or isinstance(a, Unset)
        except Exception:  # pylint: disable=broad-except
            ok = isinstance(a, str) and a == "not-a-crs"
        R.oracle(ok, "norm_crs_or_error-contract", {"arg": repr(a)}, f"norm_crs_or_error({a!r}) misbehaves", trivial=True)


# ----------------------------------------------------------------------------------------------------------------
def glue_ctors(R: Run, G: GEnc):
    """BoundingBox / Geometry / GeoBox / GCPGeoBox / GCPMapping / Tiles / roi_tiles / GeoboxTiles / GridSpec
    constructors: what they store (field by field) and in which order they fail"""
    import numpy as np
    import shapely
    from affine import Affine

    from odc.geo import geom
    from odc.geo.crs import CRS, norm_crs
    from odc.geo.gcp import GCPGeoBox, GCPMapping
    from odc.geo.geobox import GeoBox, GeoboxTiles
    from odc.geo.geom import BoundingBox, Geometry
    from odc.geo.gridspec import GridSpec
    from odc.geo.roi import Tiles, VariableSizedTiles, roi_tiles
    from odc.geo.types import XY, Index2d, Resolution, Shape2d, Unset, xy_

    E = G.E
    c1, c2 = CRS("EPSG:4326"), CRS("epsg:3857")

    # --- BoundingBox: stored as given; == against foreign objects looks at the 4 numbers only
    bbs = [BoundingBox(0, 1, 2, 3, c1), BoundingBox(0, 1, 2, 3, c2), BoundingBox(0, 1, 2, 3), BoundingBox(0.0, 1, 2.0, 3, c1),
           BoundingBox(-0.0, True, 2, 3, c1), BoundingBox(0, 1, 2, 4, c1), BoundingBox(-1, -1, -1, -1, None)]
    for l, b, r, t, c in ((0, 1, 2, 3, c1), (0.5, True, -0.0, 3, None), (1, 2.0, 3, 4, c2)):
        A.corr(R, f"c19 glue bbox {E.num(l)} {E.num(b)} {E.num(r)} {E.num(t)} {E.crs(c)}",
               lambda l=l, b=b, r=r, t=t, c=c: E.bbox(BoundingBox(l, b, r, t, c)), sig="glue|BoundingBox()")
    foreign = [(0, 1, 2, 3), [0, 1, 2, 3], (0.0, 1.0, 2.0, 3.0), (-0.0, 1, 2, 3), (0, 1, 2), (0, 1, 2, 3, 4), (), (0, 1, 2, 4),
               (False, True, 2, 3), (-1, -1, -1, -1), None, 3, xy_(0, 1), Shape2d(3, 4), OTHERS[0], (3, 2, 1, 0)]
    for bb in bbs:
        for a in foreign:
            ea = G.arg(a)

            def f(bb=bb, a=a):
                return f"{bool_s(bb == a)} {bool_s(hash(bb) == hash(a)) if type(a) is tuple else '-'}"
            A.corr(R, f"c19 glue bboxeq {E.bbox(bb)} {ea}", f, sig=f"glue|BoundingBox=={arg_sig(ea)}")
            eq = bool(bb == a)
            R.oracle(bool(a == bb) == eq, "BoundingBox-eq-any-not-symmetric", {"bbox": repr(bb), "other": repr(a)},
                     "bbox == x differs from x == bbox", trivial=not eq)
            if eq and type(a) is tuple:
                R.oracle(hash(bb) == hash(a), "BoundingBox-eq-tuple-hash-differs", {"bbox": repr(bb), "other": repr(a)},
                         f"{bb!r} == {a!r} (both hashable) but their hashes differ")

    # --- Geometry.__init__: the CRS a geometry gets
    pt = shapely.Point(1, 2)
    gj = lambda t: {"type": t, "coordinates": [1, 2]}  # noqa: E731
    feat = lambda t: {"type": t, "geometry": {"type": "Point", "coordinates": [1, 2]}, "properties": {}}  # noqa: E731
    coll = lambda t: {"type": t, "features": [feat("Feature")]}  # noqa: E731
    srcs = [("S", pt), ("D Point", gj("Point")), ("D Feature", feat("Feature")), ("D feature", feat("feature")),
            ("D FEATURE", feat("FEATURE")), ("D FeatureCollection", coll("FeatureCollection")),
            ("D featurecollection", coll("featurecollection")), ("D N", {"coordinates": [1, 2]}), ("O", OTHERS[0]),
            ("O", 5), ("G", Geometry(pt, c2)), ("G", Geometry(pt, None))]
    for tag, src in srcs:
        for ca in (None, c1, "EPSG:3857", Unset(), "not-a-crs"):
            if isinstance(ca, str) and ca == "not-a-crs" and tag not in ("S", "D Feature", "G"):
                continue   # (with a failing geometry part too the CRS failure comes first, the second is never reached)
            eca = G.crs_arg(ca)
            line = f"c19 glue geomcrs {tag} {E.crs(src.crs) + ' ' if tag == 'G' else ''}{eca}"

            def f(src=src, ca=ca, tag=tag, eca=eca):
                # observable behaviour only: the CRS the geometry ends up with / the error, expressed in the model's
                # vocabulary (which argument norm_crs must have been given to produce it)
                try:
                    g = Geometry(src, ca)
                    raised = None
                except Exception as e:  # pylint: disable=broad-except
                    g, raised = None, err_s(e)
                if tag == "G":
                    if raised is not None:
                        return "raise " + raised
                    same = g.crs is src.crs or (g.crs == src.crs and str(g.crs) == str(src.crs))
                    return "keep " + E.crs(src.crs) if same else f"unexpected-crs:{g.crs!r}"
                if isinstance(ca, str) and ca == "not-a-crs":
                    return f"norm {eca} N" if raised == "ERR:RuntimeError" else f"unexpected:{raised}"
                if raised is not None:
                    return f"norm {eca} {raised}"
                if ca is None:
                    if g.crs is None:
                        return "norm N N"
                    return "norm s:epsg:4326 N" if str(g.crs) == "EPSG:4326" else f"unexpected-crs:{g.crs!r}"
                want = norm_crs(ca)
                ok = (g.crs is None and want is None) or (want is not None and g.crs == want and str(g.crs) == str(want))
                return f"norm {eca} N" if ok else f"unexpected-crs:{g.crs!r}"

            # a CRS that cannot be built fails inside norm_crs: the geometry part is never reached
            A.corr(R, line, f, sig=f"glue|Geometry({tag.split(' ')[0]},{arg_sig(eca)})")
    for tag, src in srcs[:8]:
        try:
            g = Geometry(src)
        except Exception:  # pylint: disable=broad-except
            continue
        want = "EPSG:4326" if tag.lower().startswith("d feature") else None
        R.oracle((None if g.crs is None else str(g.crs)) == want, "Geometry-default-crs", {"src": tag},
                 f"Geometry({tag}) without crs has crs {g.crs}, expected {want}")

    # --- GeoBox / GCPGeoBox: shape through shape_, CRS through norm_crs, default affine
    A0 = (1.0, 0.0, 10.0, 0.0, -1.0, 20.0)
    shape_args = [(3, 4), [3, 4], (3.7, 4.2), (True, 4), xy_(4, 3), xy_(4.9, 3), Index2d(4, 3), Shape2d(4, 3), Resolution(4, 3),
                  (3,), (3, 4, 5), (), 5, None, OTHERS[0], (-3, 4), (0, 0)]
    for sa in shape_args:
        esa = G.arg(sa)
        for c in (c1, None):
            A.corr(R, f"c19 glue gbox {esa} {E.aff(A0)} {E.crs(c)}", lambda sa=sa, c=c: E.gbox(GeoBox(sa, Affine(*A0), c)),
                   sig=f"glue|GeoBox({arg_sig(esa)})")
    pix = np.array([(0, 0), (4, 0), (0, 3), (4, 3)], dtype="float64")
    wld = pix * 2 + 10
    m1 = GCPMapping(pix, wld, c1)
    for sa in shape_args:
        esa = G.arg(sa)
        for aff in (None, Affine(*A0), Affine.identity(), Affine.translation(-0.0, 2)):
            def f(sa=sa, aff=aff):
                g = GCPGeoBox(sa, m1) if aff is None else GCPGeoBox(sa, m1, aff)
                return " ".join(E.gcp(g).split(" ")[:2] + E.gcp(g).split(" ")[4:])
            me = " ".join(E.gcp(GCPGeoBox((1, 1), m1)).split(" ")[:4])
            A.corr(R, f"c19 glue gcp {esa} {me} {'N' if aff is None else E.aff(aff)}", f,
                   sig=f"glue|GCPGeoBox({arg_sig(esa)},{'default' if aff is None else 'affine'})")
    # GCPMapping: which CRS the mapping ends up with (an explicit one, the one the world points carry, none)
    wgeom = geom.multipoint(wld.tolist(), c2)
    wlds = [("N", wld), (G.crs_arg(c2), wgeom), ("N", [xy_(*p) for p in wld.tolist()]),
            (G.crs_arg(c2), [geom.point(*p, c2) for p in wld.tolist()]), ("N", geom.multipoint(wld.tolist(), None))]
    for ew, w in wlds:
        for given in (None, c1, Unset(), "EPSG:3577"):
            def f(w=w, given=given):
                m = GCPMapping(pix, w, given)
                if m.crs is None:
                    return "none"
                for c in (c1, c2):
                    if m.crs is c or (m.crs == c and str(m.crs) == str(c)):
                        return "same:" + G.crs_arg(c).split(":")[1]
                if isinstance(given, str) and str(m.crs) == str(CRS(given)):
                    return "build:" + G.crs_arg(given)
                return f"unexpected-crs:{m.crs!r}"
            A.corr(R, f"c19 glue gcpcrs {G.crs_arg(given)} {ew}", f, sig=f"glue|GCPMapping(crs={arg_sig(G.crs_arg(given))})")

    # --- Tiles / roi_tiles / GeoboxTiles
    def tiles_rec(t) -> str:
        if isinstance(t, VariableSizedTiles):
            oy, ox = A.vst_offsets(t)
            return f"V {list_s(oy)} {list_s(ox)}"
        vals = [*t.base.yx, *A.tiles_tile_shape(t).yx, *t.shape.yx]
        assert all(type(v) is int for v in vals), vals
        return "T " + " ".join(str(v) for v in vals)

    t_args = [(10, 10), [10, 9], (5, 5), (5, 4), (3.9, 3), xy_(4, 5), Shape2d(5, 4), Index2d(3, 3), (0, 5), (5, 0), (-5, 5),
              (True, 7), (5,), (5, 5, 5), 5, None, ()]
    for b, t in itertools.product(t_args, repeat=2):
        eb, et = G.arg(b), G.arg(t)
        A.corr(R, f"c19 glue tiles {eb} {et}", lambda b=b, t=t: tiles_rec(Tiles(b, t)),
               sig=f"glue|Tiles({arg_sig(eb)},{arg_sig(et)})")
    nested = [((5, 5), (5, 5)), [[5, 4], [5, 5]], ([5, 5], (10,)), ((), ()), ((1, 2, 3),), ((1,), (2,), (3,)), [[], [1]],
              ((2 ** 30, 2 ** 30, 5), (1,))]
    flats = [(5, 5), [5, 4], (), [], xy_(4, 5), Shape2d(5, 5), 5, None, (5,), (0, 5), (5, 5, 5)]

    def how_enc(h, absent_ok=False) -> str:
        if h is None:
            return "N" if absent_ok else "flat N"
        if isinstance(h, (tuple, list)) and len(h) > 0 and isinstance(h[0], (tuple, list)):
            return f"nested {len(h)} " + " ".join(list_s(p) for p in h)
        return "flat " + G.arg(h)

    for sa in ((10, 10), Shape2d(10, 9), [7, 10], (10,)):
        for h in nested + flats:
            A.corr(R, f"c19 glue roitiles {G.arg(sa)} {how_enc(h)}", lambda sa=sa, h=h: tiles_rec(roi_tiles(sa, h)),
                   sig="glue|roi_tiles|" + how_enc(h).split(" ")[0])
    boxes = [GeoBox((10, 10), Affine(*A0), c1), GeoBox((9, 10), Affine(*A0), None), GCPGeoBox((10, 9), m1)]
    given_tiles = [None, Tiles((10, 10), (5, 5)), Tiles((3, 3), (2, 2)), VariableSizedTiles(((5, 5), (4, 4, 4)))]

    def tiles_enc(t) -> str:
        if t is None:
            return "N"
        if isinstance(t, VariableSizedTiles):
            return "V " + " ".join(list_s(int(x) for x in np.diff(o)) for o in A.vst_offsets(t))
        return "T " + " ".join(str(v) for v in (*t.base.yx, *A.tiles_tile_shape(t).yx))

    for g in boxes:
        ge = ("G " + E.gbox(g)) if isinstance(g, GeoBox) else ("P " + E.gcp(g))
        for h in [None] + nested[:5] + flats[:8]:
            for gt in given_tiles:
                def f(g=g, h=h, gt=gt):
                    o = GeoboxTiles(g, h) if gt is None else GeoboxTiles(g, h, _tiles=gt)
                    assert o.base is g or o.base == g
                    return tiles_rec(A.gbt_tiles(o))
                A.corr(R, f"c19 glue gbt {ge} {how_enc(h, True)} {tiles_enc(gt)}", f,
                       sig=f"glue|GeoboxTiles|{how_enc(h, True).split(' ')[0]}|{'_tiles' if gt is not None else 'how'}")

    # --- GridSpec: order of the checks, defaults
    def gs_rec(o) -> str:
        b = lambda x: f"{E.num(x.sz)} {E.num(x.origin)} {int(x.direction)}"  # noqa: E731
        ybin, xbin = A.gs_bins(o)
        sh = A.gs_shape(o)
        return (f"{E.W.name(str(o.crs))} {int(sh.y)} {int(sh.x)} {E.num(o.resolution.x)} {E.num(o.resolution.y)} "
                f"{E.num(o.origin.x)} {E.num(o.origin.y)} {b(ybin)} {b(xbin)}")

    crs_opts = [(E.crs(c1), c1), ("N", None), ("E:RuntimeError", "not-a-crs"), (E.crs(c2), c2)]
    shp_opts = [(10, 10), [4, 8], xy_(8, 4), Shape2d(2, 16), (0, 10), 5, None, (1, 2, 3)]
    res_opts = [8, 0.5, -8, True, Resolution(8, -4), Resolution(-2, 2), xy_(8, -8), None, (8, -8), 0]
    org_opts = [None, xy_(0.0, 0.0), xy_(16, -8.5), Index2d(1, 2), Resolution(2), (0, 0), 5, OTHERS[0]]
    combos = list(itertools.product(crs_opts, shp_opts, res_opts, org_opts))
    # (a CRS that cannot be built costs a failing PROJ parse every time: a quarter of those combinations)
    combos = [c for c in combos if c[0][0] != "E:RuntimeError" or R.rng.random() < R.pick(0.06, 0.25)]
    if R.quick:
        combos = R.rng.sample(combos, 500)
    for (ec, c), s, r, o in combos:
        fx, fy = R.rng.random() < 0.3, R.rng.random() < 0.3
        A.corr(R, f"c19 glue gs {ec} {G.arg(s)} {G.arg(r)} {G.arg(o)} {bool_s(fx)} {bool_s(fy)}",
               lambda c=c, s=s, r=r, o=o, fx=fx, fy=fy: gs_rec(GridSpec(c, s, r, o, fx, fy)),
               sig=f"glue|GridSpec(crs={'ok' if isinstance(c, CRS) else repr(c)[:5]},{arg_sig(G.arg(s))},"
                   f"{arg_sig(G.arg(r))},{arg_sig(G.arg(o))})")
    _ = (XY, math)


def equivalent_spellings(R: Run):
    """The clause of the property the glue exists for, on real objects and without the model: equivalent spellings of
    the same arguments construct equal values (equal hashes where hashable) that share a dask token."""
    from affine import Affine
    from dask.base import tokenize

    from odc.geo.crs import CRS
    from odc.geo.geobox import GeoBox, GeoboxTiles
    from odc.geo.geom import BoundingBox, Geometry
    from odc.geo.gridspec import GridSpec
    from odc.geo.roi import Tiles, VariableSizedTiles, roi_tiles
    from odc.geo.types import Index2d, Resolution, Shape2d, ixy_, iyx_, res_, resxy_, resyx_, shape_, wh_, xy_, yx_

    A_ = Affine(1.0, 0.0, 10.0, 0.0, -1.0, 20.0)
    c = CRS("EPSG:4326")
    L = lambda f: f  # noqa: E731  (each spelling is built under guard: one that starts raising is a finding, not a crash)
    groups = {
        "XY": [L(lambda: xy_(1, 2)), L(lambda: xy_((1, 2))), L(lambda: xy_([1, 2])), L(lambda: yx_(2, 1)), L(lambda: yx_((2, 1))),
               L(lambda: xy_(xy_(1, 2))), L(lambda: yx_(xy_(1, 2))), L(lambda: yx_([2, 1]))],
        "Index2d": [L(lambda: ixy_(1, 2)), L(lambda: ixy_((1, 2))), L(lambda: iyx_(2, 1)), L(lambda: iyx_((2, 1))),
                    L(lambda: ixy_(Index2d(1, 2))), L(lambda: iyx_(xy_(1, 2))), L(lambda: ixy_(xy_(1, 2))), L(lambda: iyx_(Index2d(1, 2)))],
        "Shape2d": [L(lambda: shape_((3, 4))), L(lambda: shape_([3, 4])), L(lambda: shape_(xy_(4, 3))), L(lambda: shape_(Shape2d(4, 3))),
                    L(lambda: wh_(4, 3)), L(lambda: shape_(Index2d(4, 3))), L(lambda: shape_(shape_((3, 4)))), L(lambda: shape_((3.0, 4.9)))],
        "Resolution": [L(lambda: Resolution(8, -8)), L(lambda: Resolution(8)), L(lambda: resxy_(8, -8)), L(lambda: resyx_(-8, 8)),
                       L(lambda: res_(8)), L(lambda: res_(8.0)), L(lambda: res_(Resolution(8))), L(lambda: Resolution(8.0, -8.0))],
        "GeoBox": [L(lambda: GeoBox((3, 4), A_, c)), L(lambda: GeoBox([3, 4], A_, "EPSG:4326")),
                   L(lambda: GeoBox(Shape2d(4, 3), A_, "epsg:4326")), L(lambda: GeoBox(xy_(4, 3), A_, 4326)),
                   L(lambda: GeoBox(wh_(4, 3), A_, CRS(c)))],
        "BoundingBox": [L(lambda: BoundingBox(0, 1, 2, 3, c)), L(lambda: BoundingBox(0, 1, 2, 3, "epsg:4326")),
                        L(lambda: BoundingBox(0, 1, 2, 3, 4326)), L(lambda: BoundingBox(0, 1, 2, 3, CRS(c)))],
        "Tiles": [L(lambda: Tiles((10, 9), (5, 4))), L(lambda: Tiles([10, 9], [5, 4])), L(lambda: Tiles(xy_(9, 10), wh_(4, 5))),
                  L(lambda: Tiles(Shape2d(9, 10), xy_(4, 5))), L(lambda: roi_tiles((10, 9), (5, 4))), L(lambda: roi_tiles([10, 9], [5, 4]))],
        "VariableSizedTiles": [L(lambda: VariableSizedTiles(((5, 5), (4, 5)))), L(lambda: roi_tiles((10, 9), ((5, 5), (4, 5)))),
                               L(lambda: roi_tiles((10, 9), [[5, 5], [4, 5]])), L(lambda: roi_tiles((1, 1), ([5, 5], (4, 5)))),
                               L(lambda: roi_tiles((10, 9), [(5, 5), [4, 5]]))],
        "GeoboxTiles": [L(lambda: GeoboxTiles(GeoBox((10, 9), A_, c), (5, 4))),
                        L(lambda: GeoboxTiles(GeoBox([10, 9], A_, "epsg:4326"), [5, 4])),
                        L(lambda: GeoboxTiles(GeoBox((10, 9), A_, c), wh_(4, 5))),
                        L(lambda: GeoboxTiles(GeoBox((10, 9), A_, c), None, _tiles=Tiles((10, 9), (5, 4))))],
        "GeoboxTiles-chunks": [L(lambda: GeoboxTiles(GeoBox((10, 9), A_, c), ((5, 5), (4, 5)))),
                               L(lambda: GeoboxTiles(GeoBox((10, 9), A_, c), [[5, 5], [4, 5]])),
                               L(lambda: GeoboxTiles(GeoBox((10, 9), A_, c), None, _tiles=VariableSizedTiles(((5, 5), (4, 5)))))],
        "GridSpec": [L(lambda: GridSpec(c, (10, 10), 8)), L(lambda: GridSpec("epsg:4326", [10, 10], Resolution(8, -8), xy_(0.0, 0.0))),
                     L(lambda: GridSpec(4326, wh_(10, 10), 8.0, None, False, False)), L(lambda: GridSpec(CRS(c), xy_(10, 10), res_(8)))],
        "Geometry": [L(lambda: Geometry({"type": "Feature", "geometry": {"type": "Point", "coordinates": [1, 2]}})),
                     L(lambda: Geometry({"type": "FeatureCollection", "features": [
                         {"type": "Feature", "geometry": {"type": "Point", "coordinates": [1, 2]}}]})),
                     L(lambda: Geometry({"type": "Point", "coordinates": [1, 2]}, "EPSG:4326")),
                     L(lambda: Geometry({"type": "Point", "coordinates": [1.0, 2.0]}, 4326)),
                     L(lambda: Geometry(Geometry({"type": "Point", "coordinates": [1, 2]}, c)))],
    }
    for name, mks in groups.items():
        vs = []
        for k, mk in enumerate(mks):
            try:
                vs.append((k, mk()))
            except Exception as e:  # pylint: disable=broad-except
                R.oracle(False, f"{name}-equivalent-spelling-raises", {"type": name, "i": k},
                         f"{name}: spelling #{k} of the arguments is refused: {e!r}")
        toks = {k: tokenize(v) for k, v in vs}
        for (i, a), (j, b) in itertools.combinations(vs, 2):
            case = {"type": name, "i": i, "j": j, "a": repr(a), "b": repr(b)}
            R.oracle(a == b and b == a, f"{name}-equivalent-spellings-unequal", case,
                     f"{name}: spelling #{i} and #{j} of the same arguments give unequal values")
            if name == "Geometry":
                continue   # (a geometry's token hashes its pickle: int vs float coordinates of the GeoJSON differ)
            R.oracle(toks[i] == toks[j], f"{name}-equivalent-spellings-token", case,
                     f"{name}: spelling #{i} and #{j} of the same arguments give different dask tokens")
            try:
                R.oracle(hash(a) == hash(b), f"{name}-equivalent-spellings-hash", case,
                         f"{name}: spelling #{i} and #{j} hash differently")
            except TypeError:
                pass


def part_glue(R: Run):
    from .c19 import Enc

    G = GEnc(Enc())
    A.guard("glue: types.py input forms", lambda: glue_types(R, G))
    A.guard("glue: norm_crs", lambda: glue_norm_crs(R, G))
    A.guard("glue: constructors", lambda: glue_ctors(R, G))
    A.guard("glue: equivalent spellings", lambda: equivalent_spellings(R))
