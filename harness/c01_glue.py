"""C01, second part — the glue around the CRS guard (Model/C01Glue.lean): CRS.__eq__ with non-CRS operands, the
`crs == "epsg:4326" or None` dispatch of BoundingBox.aoi / map_bounds, Geometry / BoundingBox construction (how an
object gets its CRS), the 'utm…' branch of norm_crs over every UTM zone, and the CRS carried by the result of every
single-operand operation of Geometry and BoundingBox (discovered by introspection of the live classes)."""
from __future__ import annotations

import inspect
import itertools
import warnings
from typing import Any, Dict, List, Optional

from .common import Run, bool_s


def _quiet(fn):
    with warnings.catch_warnings():
        warnings.simplefilter("ignore")
        return fn()


def _err(C, e: BaseException) -> str:
    from .c01 import err_str

    return "ERR:CRSError" if type(e).__name__ == "CRSError" else err_str(e)


# --------------------------------------------------------------------------- single-operand operations
BINARY_OR_PLAIN = {"snap_to", "overlap_roi", "enclosing", "project", "crop", "compute_crop", "from_bbox", "from_geopolygon", "from_rio", "load",
                   "geographic_extent", "footprint", "svg", "outline", "grid_lines", "compat", "split", "contains", "covers", "crosses", "disjoint", "intersects", "touches", "within", "overlaps", "difference",
                   "intersection", "symmetric_difference", "union", "__and__", "__or__", "__xor__", "__sub__", "__eq__", "__ne__",
                   "explore", "geojson", "svg", "svg_path", "from_xy", "from_points", "from_transform", "map_bounds"}


# what the documentation says of the CRS of the result (everything else: the CRS of the object itself)
DOCUMENTED_RULE = {"Geometry.assign_crs": "arg", "Geometry.to_crs": "target", "BoundingBox.to_crs": "target", "GeoBox.to_crs": "target"}


def _unary_args(C, name: str, crs_arg):
    from affine import Affine

    return {
        "Geometry.segmented": (0.75,), "Geometry.interpolate": (0.5,), "Geometry.buffer": (0.25,), "Geometry.simplify": (0.1,),
        "Geometry.transform": (lambda x, y: (x, y),), "Geometry.filter": (lambda x, y: True,), "Geometry.assign_crs": (crs_arg,),
        "Geometry.to_crs": (crs_arg,), "Geometry.__rmul__": (Affine.translation(1, 2),), "BoundingBox.buffered": (1.0,),
        "BoundingBox.transform": (Affine.scale(2.0),), "BoundingBox.boundary": (3,), "BoundingBox.qr2sample": (5,),
        "BoundingBox.to_crs": (crs_arg,),
        "GeoBox.pad": (1,), "GeoBox.pad_wh": (4,), "GeoBox.zoom_out": (2,), "GeoBox.zoom_to": ((4, 4),), "GeoBox.buffered": (0.5,),
        "GeoBox.translate_pix": (1, 2), "GeoBox.rotate": (30,), "GeoBox.to_crs": (crs_arg,),
    }.get(name, ())


def _tags_of(C, res) -> Optional[List[Any]]:
    """the CRS objects of everything CRS-tagged in a result (None: the result is not CRS-tagged)"""
    gm, gb = C.gmod, C.gbmod
    tagged = (gm.Geometry, gm.BoundingBox, gb.GeoBox)
    if isinstance(res, tagged):
        return [res.crs]
    if isinstance(res, (str, bytes, dict)) or res is None:
        return None
    if isinstance(res, (list, tuple)) or inspect.isgenerator(res) or hasattr(res, "__next__"):
        items = list(res)
        if all(isinstance(x, tagged) for x in items):
            return [x.crs for x in items]      # [] for an empty iterator: nothing to carry a tag
    return None


def discover_unary(C) -> Dict[str, str]:
    """public attributes of Geometry / BoundingBox that, reached from ONE CRS-tagged object (plus non-CRS arguments),
    hand back CRS-tagged objects; with the rule observed on the live code (keep / arg / target)"""
    from shapely import geometry as sg

    gm = C.gmod
    byl = C.pool.by_label
    a, a2, b = byl["4326"][2], byl["4326wkt2"][2], byl["3857"][2]
    shp = sg.MultiPolygon([sg.Polygon([(0, 0), (8, 0), (8, 8), (0, 8)], [[(1, 1), (2, 1), (2, 2)]]), sg.box(10, 10, 12, 12)])
    poly = sg.Polygon([(0, 0), (8, 0), (8, 8), (0, 8)], [[(1, 1), (2, 1), (2, 2)]])
    line = sg.LineString([(0, 0), (4, 4), (9, 1)])
    found: Dict[str, str] = {}
    from affine import Affine

    gbx = C.gbmod.GeoBox
    for cname, cls, mk in (("Geometry", gm.Geometry, lambda c, s=None: gm.Geometry(s if s is not None else shp, c)),
                           ("BoundingBox", gm.BoundingBox, lambda c, s=None: gm.BoundingBox(1.0, 2.0, 5.0, 7.0, c)),
                           ("GeoBox", gbx, lambda c, s=None: gbx((8, 8), Affine(0.25, 0, 10.0, 0, -0.25, 42.0), c))):
        names = [n for n in dir(cls) if (not n.startswith("_") or n in ("__iter__", "__rmul__")) and n not in BINARY_OR_PLAIN
                 and not (cname == "GeoBox" and n in ("qr2sample", "boundary"))]
        for n in names:
            full = f"{cname}.{n}"
            static = inspect.getattr_static(cls, n)
            for sample in ((shp, poly, line) if cname == "Geometry" else (None,)):
                def call(self_crs, arg_crs):
                    obj = mk(self_crs, sample)
                    if isinstance(static, property):
                        return getattr(obj, n)
                    args = _unary_args(C, full, arg_crs)
                    if n == "__rmul__":
                        return args[0] * obj
                    return getattr(obj, n)(*args)

                try:
                    tags = _quiet(lambda: _tags_of(C, call(a, b)))
                except Exception:  # pylint: disable=broad-except
                    continue
                if not tags:
                    continue
                if all(t is a or (t is not None and t == a and str(t) == str(a)) for t in tags):
                    rule = "keep"
                else:
                    try:
                        t2 = _quiet(lambda: _tags_of(C, call(a, a2)))
                    except Exception:  # pylint: disable=broad-except
                        t2 = None
                    rule = "target" if (t2 and all(t is a for t in t2)) else "arg"
                found[full] = rule
                break
    return found


def check_unary(C):
    from shapely import geometry as sg

    from .common import run_driver

    R: Run = C.R
    gm = C.gmod
    table = run_driver("C01", ["c01 unaryops"])[0]
    model = dict(x.split("|") for x in table.split(","))
    found = discover_unary(C)
    # no structural comparison of the table with what introspection finds: differences are recorded, the behaviour of
    # the listed operations is what is compared below
    R.extra["unary_ops_discovered"] = len(found)
    extra, missing = sorted(set(found) - set(model)), sorted(set(model) - set(found))
    if extra:
        R.notes.append("single-operand operations returning CRS-tagged objects that the model's unaryTable does not list "
                       "(observed rule): " + ", ".join(f"{n}={found[n]}" for n in extra))
    if missing:
        R.notes.append("unaryTable entries not reachable on the live classes: " + ", ".join(missing))
    differ = sorted(n for n in found if n in model and found[n] != model[n])
    if differ:
        R.notes.append("unaryTable rule differs from the observed one (judged behaviourally below): " + ", ".join(differ))
    kinds = {
        "multipolygon": sg.MultiPolygon([sg.Polygon([(0, 0), (8, 0), (8, 8), (0, 8)], [[(1, 1), (2, 1), (2, 2)]]), sg.box(10, 10, 12, 12)]),
        "polygon+hole": sg.Polygon([(0, 0), (8, 0), (8, 8), (0, 8)], [[(1, 1), (2, 1), (2, 2)]]),
        "line": sg.LineString([(0, 0), (4, 4), (9, 1)]), "point": sg.Point(3, 4), "collection": sg.GeometryCollection([sg.Point(1, 1), sg.box(0, 0, 2, 2)]),
        "empty": sg.Polygon(),
    }
    pool = C.pool.entries
    try:
        for name in [n for n in model if n in found]:
            cname, n = name.split(".", 1)
            static = inspect.getattr_static(getattr(gm, cname) if cname != "GeoBox" else C.gbmod.GeoBox, n)
            takes_crs = name in ("Geometry.assign_crs", "Geometry.to_crs", "BoundingBox.to_crs", "GeoBox.to_crs")
            for es in pool:
                for et in (pool if takes_crs else [pool[0]]):
                    if name.endswith("to_crs") and (es[2] is None or et[2] is None):
                        continue   # refusals of to_crs are C07's (to_crs_none_errors)
                    hits = 0
                    for kind, shp in (kinds.items() if cname == "Geometry" else [("bbox", None)]):
                        if cname == "Geometry":
                            obj = gm.Geometry(shp, es[2])
                        elif cname == "BoundingBox":
                            obj = gm.BoundingBox(1.0, 2.0, 5.0, 7.0, es[2])
                        else:
                            from affine import Affine

                            obj = C.gbmod.GeoBox((8, 8), Affine(0.25, 0, 10.0, 0, -0.25, 42.0), es[2])

                        def f():
                            if isinstance(static, property):
                                res = getattr(obj, n)
                            elif n == "__rmul__":
                                res = _unary_args(C, name, et[2])[0] * obj
                            else:
                                res = getattr(obj, n)(*_unary_args(C, name, et[2]))
                            tags = _tags_of(C, res)
                            if tags is None:
                                return "untagged"
                            if not tags:
                                return "nothing"
                            recs = {C.pool.rec(t) for t in tags}
                            return recs.pop() if len(recs) == 1 else "mixed"

                        try:
                            out = _quiet(f)
                        except Exception:  # pylint: disable=broad-except
                            continue      # the operation does not exist for this kind (exterior of a line …)
                        if out in ("nothing",):
                            continue
                        hits += 1
                        R.corr(f"c01 unary {name} {C.pool.rec(es[2])} {C.pool.rec(et[2])}", lambda o=out: o,
                               sig=f"unary|{name}|{kind}|" + ("none" if es[2] is None else "crs"))
                        # the property, independent of the model: ground-truth label of the result's CRS
                        rule = DOCUMENTED_RULE.get(name, "keep")
                        want = es[1] if rule == "keep" else (et[1] if rule == "arg" else (es[1] if es[1] == et[1] else et[1]))
                        by_rec = {C.pool.rec(e[2]): e[1] for e in C.pool.wide + C.pool.spelled}
                        R.oracle(out == "N" and want is None or by_rec.get(out) == want, f"unary-result-crs:{name}",
                                 {"op": name, "kind": kind, "self": es[0], "arg": et[0]},
                                 f"{name} of a {kind} in {es[0]}" + (f" (crs argument {et[0]})" if takes_crs else "") +
                                 f" carries CRS record {out}", sig=f"unary-tag|{cname}")
                    R.count(f"unary-kinds-hit:{name}:{hits}")
    finally:
        pass


# --------------------------------------------------------------------------- CRS.__eq__ with anything; aoi / map_bounds
def check_eq_any(C):
    import pyproj

    from .c01_spellings import Duck

    R: Run = C.R
    CRS = C.CRS
    p3857 = pyproj.CRS.from_epsg(3857)
    others = [("str", "EPSG:4326"), ("str-lower", "epsg:3857"), ("int", 4326), ("int", 3857), ("wkt", p3857.to_wkt()),
              ("dict", {"proj": "longlat", "datum": "WGS84"}), ("dict", {"init": "epsg:3857"}), ("pyproj", p3857), ("pyproj", pyproj.CRS.from_epsg(4326)),
              ("duck-wkt", Duck(wkt=pyproj.CRS.from_epsg(4326).to_wkt())), ("none", None), ("garbage", "PROJCS[not a crs"), ("garbage", object()),
              ("garbage", 3.5), ("garbage", Duck(epsg=4326, string="EPSG:4326")), ("garbage", ()), ("garbage", -1)]
    ents = C.pool.entries[1:] + [C.pool.by_label[l] for l in ("sinu", "laea") if l in C.pool.by_label]
    for e in ents:
        a = e[2]
        for kind, o in others:
            try:
                oc = _quiet(lambda: CRS(o))
                otok = C.pool.rec(oc)
            except Exception:  # pylint: disable=broad-except
                oc, otok = None, "X"
            forms = [("eq", lambda: a == o), ("ne-neg", lambda: not (a != o))]
            if isinstance(o, (str, int, float, tuple, dict)) or o is None:
                forms.append(("reflected", lambda: o == a))
            for fk, fn in forms:
                out = R.corr(f"c01 eqany {C.pool.rec(a)} {otok}", lambda fn=fn: bool_s(bool(_quiet(fn))), sig=f"eqany|{kind}|{fk}")
                # ground truth: pyproj on fresh objects of the two definitions
                if oc is None:
                    want = False
                else:
                    try:
                        fresh_o = o if isinstance(o, pyproj.CRS) else (pyproj.CRS.from_wkt(o.to_wkt()) if hasattr(o, "to_wkt")
                                                                      else pyproj.CRS.from_user_input(o))
                        want = C.pool.truth_for(fresh_o) == e[1]
                    except Exception:  # pylint: disable=broad-except
                        continue
                R.oracle(out == bool_s(want), "crs-eq-non-crs-operand", {"a": e[0], "other": repr(o)[:80], "form": fk},
                         f"CRS[{e[0]}] {fk} {o!r:.60} gives {out}, pyproj says {want}", sig=f"eqany-truth|{kind}")


def check_lonlat_dispatch(C):
    R: Run = C.R
    gm = C.gmod
    t4326 = C.pool.rec(C.CRS("epsg:4326"))
    for e in C.pool.entries + [C.pool.by_label[l] for l in ("sinu", "laea", "3577", "32633") if l in C.pool.by_label]:
        for what in ("aoi", "map_bounds"):
            bb = gm.BoundingBox(10.0, 40.0, 12.0, 42.0, e[2]) if (e[2] is None or e[2].geographic) else gm.BoundingBox(
                1.1e6, 4.8e6, 1.3e6, 5.1e6, e[2])
            seen = {"n": 0}
            orig_b, orig_g = gm.BoundingBox.to_crs, gm.Geometry.to_crs

            def spy_b(self, *a, **k):
                seen["n"] += 1
                return orig_b(self, *a, **k)

            def spy_g(self, *a, **k):
                seen["n"] += 1
                return orig_g(self, *a, **k)

            def f():
                gm.BoundingBox.to_crs, gm.Geometry.to_crs = spy_b, spy_g
                try:
                    _quiet(lambda: bb.aoi if what == "aoi" else bb.map_bounds())
                except Exception as ex:  # pylint: disable=broad-except
                    return _err(C, ex)
                finally:
                    gm.BoundingBox.to_crs, gm.Geometry.to_crs = orig_b, orig_g
                return "converted" if seen["n"] else "raw"

            out = R.corr(f"c01 lonlatdispatch {C.pool.rec(e[2])} {t4326}", f, sig=f"lonlat-dispatch|{what}")
            want = "raw" if (e[1] is None or e[1] == C.pool.by_label["4326"][1]) else "converted"
            R.oracle(out == want, f"bbox-{what}-reads-other-crs-as-lonlat", {"crs": e[0], "what": what},
                     f"BoundingBox.{what} of a box in {e[0]}: numbers used {out}, expected {want}", sig=f"lonlat-dispatch-truth|{what}")


# --------------------------------------------------------------------------- construction
def check_construction(C):
    from affine import Affine
    from odc.geo.types import Unset
    from shapely import geometry as sg

    R: Run = C.R
    gm = C.gmod
    t4326 = C.pool.rec(C.CRS("epsg:4326"))
    pool = C.pool.entries
    crs_args: List[Any] = [("omitted", "omitted", None), ("none", "omitted", None), ("unset", "unset", Unset()), ("err", "err", "+proj=not_a_projection"),
                           ("err", "err", 3.5), ("assert", "assert", "utm"), ("assert", "assert", "UTM-S")]
    for e in pool[1:]:
        crs_args.append(("ok", f"ok={C.pool.rec(e[2])}", e[2]))
    crs_args += [("ok-str", f"ok={C.pool.rec(C.CRS('EPSG:3857'))}", "EPSG:3857"), ("ok-int", f"ok={C.pool.rec(C.CRS(4326))}", 4326)]
    pt = {"type": "Point", "coordinates": [1.0, 2.0]}
    geom_args: List[Any] = [("S", "S", lambda: sg.Point(1, 2)), ("S", "S", lambda: sg.box(0, 0, 1, 1)),
                            ("DP", "DP", lambda: dict(pt)), ("DP", "DP", lambda: {"type": "Polygon", "coordinates": [[(0, 0), (1, 0), (1, 1), (0, 0)]]}),
                            ("DF", "DF", lambda: {"type": "Feature", "geometry": dict(pt), "properties": {}}),
                            ("DF", "DF", lambda: {"type": "FEATURE", "geometry": dict(pt)}),
                            ("DF", "DF", lambda: {"type": "FeatureCollection", "features": [{"type": "Feature", "geometry": dict(pt)}]}),
                            ("DF", "DF", lambda: {"type": "featurecollection", "features": [{"type": "Feature", "geometry": dict(pt)},
                                                                                              {"type": "Feature", "geometry": dict(pt)}]}),
                            ("O", "O", lambda: "POINT (1 2)"), ("O", "O", lambda: (1.0, 2.0)), ("O", "O", lambda: None), ("O", "O", lambda: 7)]
    for e in pool:
        geom_args.append(("G", f"G={C.pool.rec(e[2])}", lambda e=e: gm.Geometry(sg.Point(1, 2), e[2])))
    for (gk, gtok, mk), (ck, ctok, cv) in itertools.product(geom_args, crs_args):
        def f():
            try:
                g = _quiet(lambda: gm.Geometry(mk()) if ck == "omitted" else gm.Geometry(mk(), cv) if ck in ("none", "err") else gm.Geometry(mk(), crs=cv))
            except Exception as ex:  # pylint: disable=broad-except
                return _err(C, ex)
            return C.pool.rec(g.crs)

        R.corr(f"c01 geominit {t4326} {gtok} {ctok}", f, sig=f"geominit|{gk}|{ck}")
    # BoundingBox and its static constructors
    makers = {"BoundingBox": lambda c: gm.BoundingBox(0.0, 1.0, 2.0, 3.0, c), "BoundingBox(kw)": lambda c: gm.BoundingBox(0.0, 1.0, 2.0, 3.0, crs=c),
              "from_xy": lambda c: gm.BoundingBox.from_xy((2.0, 0.0), (1.0, 3.0), c), "from_points": lambda c: gm.BoundingBox.from_points((2.0, 3.0), (0.0, 1.0), crs=c),
              "from_transform": lambda c: gm.BoundingBox.from_transform((3, 4), Affine.scale(0.5), c)}
    plain = {"BoundingBox": lambda: gm.BoundingBox(0.0, 1.0, 2.0, 3.0), "BoundingBox(kw)": lambda: gm.BoundingBox(0.0, 1.0, 2.0, 3.0),
             "from_xy": lambda: gm.BoundingBox.from_xy((2.0, 0.0), (1.0, 3.0)), "from_points": lambda: gm.BoundingBox.from_points((2.0, 3.0), (0.0, 1.0)),
             "from_transform": lambda: gm.BoundingBox.from_transform((3, 4), Affine.scale(0.5))}
    for mname in makers:
        for ck, ctok, cv in crs_args:
            def fb():
                try:
                    bb = _quiet(lambda: plain[mname]() if ck == "omitted" else makers[mname](cv))
                except Exception as ex:  # pylint: disable=broad-except
                    return _err(C, ex)
                return C.pool.rec(bb.crs)

            R.corr(f"c01 bboxinit {ctok}", fb, sig=f"bboxinit|{mname}|{ck}")
    # Geometry.transform(func, crs=…) / A * geom
    for e in pool:
        g = gm.Geometry(sg.box(0, 0, 2, 2), e[2])
        for ck, ctok, cv in crs_args:
            if ck == "omitted":
                continue
            if ck == "none":
                ctok = "ok=N"   # `crs=None` removes the CRS: only `Unset()` (the default) keeps it

            def ft():
                try:
                    out = _quiet(lambda: g.transform(lambda x, y: (x, y), crs=cv))
                except Exception as ex:  # pylint: disable=broad-except
                    return _err(C, ex)
                return C.pool.rec(out.crs)

            R.corr(f"c01 transformtag {C.pool.rec(e[2])} {ctok}", ft, sig=f"transformtag|{ck}")
        R.corr(f"c01 transformtag {C.pool.rec(e[2])} unset", lambda: C.pool.rec(_quiet(lambda: g.transform(lambda x, y: (x, y))).crs),
               sig="transformtag|default")


# --------------------------------------------------------------------------- norm_crs('utm…', ctx): every zone
UTM_TEXTS = ("utm", "UTM", "utm-n", "UTM-N", "Utm-n", "utm-s", "UTM-S", "utm-x", "utmzone", "utm-north", "UTM_S")


def check_utm(C):
    from odc.geo.crs import norm_crs

    R: Run = C.R
    gm, CRS = C.gmod, C.CRS
    zones = range(1, 61) if not R.quick else sorted(set(R.rng.sample(range(2, 60), 1)) | {1, 60})
    texts = UTM_TEXTS if not R.quick else ("utm", "UTM-N", "utm-s", "utm-x")
    for z in zones:
        lon = -183.0 + 6.0 * z
        for lat in (41.0, -37.0):
            ctx = gm.point(lon, lat, "EPSG:4326")
            try:
                base = _quiet(lambda: CRS.utm(ctx))
                south, code = base.proj.utm_zone.endswith("S"), int(base.epsg)
            except Exception as ex:  # pylint: disable=broad-except
                R.oracle(False, "crs-utm-raises", {"lon": lon, "lat": lat}, repr(ex))
                continue
            R.oracle(code == (32700 if lat < 0 else 32600) + z, "crs-utm-wrong-zone", {"lon": lon, "lat": lat},
                     f"CRS.utm(point({lon}, {lat})) is EPSG:{code}, zone {z} {'S' if lat < 0 else 'N'} expected", sig="utm|base")
            for txt in texts:
                def f():
                    try:
                        out = _quiet(lambda: norm_crs(txt, ctx))
                    except Exception as ex:  # pylint: disable=broad-except
                        return _err(C, ex)
                    return str(out.epsg)

                out = R.corr(f"c01 utm {txt.lower()} {bool_s(south)} {code}", f, sig=f"utm|{txt.lower()}|{'S' if south else 'N'}")
                low = txt.lower()
                want = (32600 + z) if low == "utm-n" else (32700 + z) if low == "utm-s" else ((32700 if lat < 0 else 32600) + z)
                R.oracle(out == str(want), "norm-crs-utm-wrong-hemisphere-or-zone", {"text": txt, "lon": lon, "lat": lat},
                         f"norm_crs({txt!r}, point({lon}, {lat})) is EPSG:{out}, EPSG:{want} expected", sig=f"utm-truth|{low}")


def check_utm_contexts(C):
    """CRS.utm / norm_crs('utm', ctx): every kind of context the docstring allows, for the same place on Earth, must give
    the same zone (a Geometry or BoundingBox in another CRS is converted to lon/lat, never read as lon/lat)"""
    import pyproj
    from odc.geo.crs import norm_crs
    from odc.geo.types import xy_

    R: Run = C.R
    gm, CRS = C.gmod, C.CRS
    to3857 = pyproj.Transformer.from_crs(4326, 3857, always_xy=True)
    for lon, lat, z, code in ((15.0, 47.0, 33, 32633), (-70.5, -33.0, 19, 32719), (147.3, -42.9, 55, 32755)):
        x, y = to3857.transform(lon, lat)
        (xa, ya), (xb, yb) = to3857.transform(lon - 4.0, lat - 0.5), to3857.transform(lon + 4.0, lat + 0.5)
        ctxs = {
            "floats": lambda: CRS.utm(lon, lat), "xy": lambda: CRS.utm(xy_(lon, lat)),
            "point-4326": lambda: CRS.utm(gm.point(lon, lat, "EPSG:4326")), "point-3857": lambda: CRS.utm(gm.point(x, y, "EPSG:3857")),
            "point-nocrs": lambda: CRS.utm(gm.point(lon, lat, None)),
            "bbox-4326": lambda: CRS.utm(gm.BoundingBox(lon - 0.1, lat - 0.1, lon + 0.1, lat + 0.1, "EPSG:4326")),
            "bbox-nocrs": lambda: CRS.utm(gm.BoundingBox(lon - 0.1, lat - 0.1, lon + 0.1, lat + 0.1)),
            "bbox-3857-small": lambda: CRS.utm(gm.BoundingBox(x - 5e3, y - 5e3, x + 5e3, y + 5e3, "EPSG:3857")),
            "polygon-3857-two-zones": lambda: CRS.utm(gm.box(xa, ya, xb, yb, "EPSG:3857")),
            "bbox-3857-two-zones": lambda: CRS.utm(gm.BoundingBox(xa, ya, xb, yb, "EPSG:3857")),
            "norm_crs-bbox-3857-two-zones": lambda: norm_crs("utm", gm.BoundingBox(xa, ya, xb, yb, "EPSG:3857")),
        }
        for ck, fn in ctxs.items():
            try:
                got = _quiet(fn)
                ok, what = got.epsg == code, f"-> {got}"
            except Exception as ex:  # pylint: disable=broad-except
                ok, what = False, f"raised {ex!r}"
            key = "crs-utm-projected-bbox-raises" if ck.endswith("bbox-3857-two-zones") else "crs-utm-context-kind"
            R.oracle(ok, key, {"fn": "utm-context", "ctx": ck, "lon": lon, "lat": lat},
                     f"CRS.utm for {ck} around lon {lon}, lat {lat} (zone {z}) {what}", sig=f"utm-context|{ck}")


def run_glue(C):
    import time

    timing = {}
    for fn in (check_unary, check_eq_any, check_lonlat_dispatch, check_construction, check_utm, check_utm_contexts):
        t0 = time.time()
        fn(C)
        timing[fn.__name__] = round(time.time() - t0, 2)
    C.R.extra["glue_section_seconds"] = timing
