#!/usr/bin/env python3
"""Run every claimed check (or the ids given) and print rc / wall time / VIOLATION lines.
  sweep.py [--tier thorough] [--seed N] [--jobs J] [C01 C02 ...]"""
import json, os, subprocess, sys, time
from concurrent.futures import ThreadPoolExecutor
from pathlib import Path
ROOT = Path(__file__).resolve().parent.parent
args = sys.argv[1:]
tier = args[args.index("--tier") + 1] if "--tier" in args else "quick"
seed = args[args.index("--seed") + 1] if "--seed" in args else "0"
jobs = int(args[args.index("--jobs") + 1]) if "--jobs" in args else 3
ids = [a for a in args if a.startswith("C") and a[1:].isdigit()]
if not ids:
    ids = [c["property_id"] for c in json.loads((ROOT / "MANIFEST.json").read_text())["checks"]]
def run(pid):
    t0 = time.time()
    env = dict(os.environ, VERIF_SEED=seed)
    p = subprocess.run(["/venv/bin/python", "check.py", pid, "--tier", tier], cwd=str(ROOT), capture_output=True, text=True, env=env)
    lines = [l for l in p.stdout.splitlines() if l.startswith(("VIOLATION", "INFRA"))]
    kn = sum(1 for l in p.stdout.splitlines() if l.startswith("KNOWN-FINDING"))
    return pid, p.returncode, round(time.time() - t0, 1), kn, lines
with ThreadPoolExecutor(jobs) as ex:
    res = list(ex.map(run, ids))
bad = 0
for pid, rc, t, kn, lines in res:
    print(f"{pid} rc={rc} {t}s known={kn}")
    for l in lines[:5]:
        print("   ", l)
    bad += rc != 0
print("ALL GREEN" if not bad else f"{bad} NOT GREEN")
sys.exit(1 if bad else 0)
