#!/usr/bin/env python3
"""MANIFEST.setup_cmd: build the Lean side of every claimed property (offline, from files on disk)."""
import json, subprocess, sys
from pathlib import Path
ROOT = Path(__file__).resolve().parent.parent
man = json.loads((ROOT / "MANIFEST.json").read_text())
targets = ["OdcGeo.Audit"]
for c in man["checks"]:
    pid = c["property_id"]
    targets += [f"OdcGeo.Props.{f.stem}" for f in sorted((ROOT / "lean" / "OdcGeo" / "Props").glob(f"{pid}*.lean"))]
    targets.append(f"driver_{pid.lower()}")
p = subprocess.run(["lake", "build", *targets], cwd=str(ROOT / "lean"))
rc = p.returncode
# source tie (harness/gentie.py): regenerate lean/OdcGeo/Gen/Cxx.lean from /repo and build Props/GenCxx for the ready properties
try:
    sys.path.insert(0, str(ROOT))
    from harness import gentie
    ready = [pid for pid in gentie.GENTIE_READY if any(c["property_id"] == pid for c in man["checks"])]
    if ready:
        rc = rc or subprocess.run([sys.executable, "-m", "harness.gentie", *ready], cwd=str(ROOT)).returncode
except ImportError:
    pass
sys.exit(rc)
