#!/usr/bin/env python3
"""Evaluate one round of independently written changes in parallel.
  evalround.py <suffix> <offset> [--verif DIR] [--jobs J] [C01 C02 ...]
For every property Cxx and k=1..4 with /tmp/mut/out/Cxx<suffix>/change<k>/patch.diff, runs
<verif>/tools/try_mutant.py Cxx <dir> --keep Cxx-<k+offset>  (from the given /verif snapshot, default the
directory this script lives in) and prints one summary line per change.  Changes of one property run
sequentially (they share the evidence file), properties run J at a time."""
import json, subprocess, sys
from concurrent.futures import ThreadPoolExecutor
from pathlib import Path
args = sys.argv[1:]
suffix, off = args[0], int(args[1])
verif = Path(args[args.index("--verif") + 1]) if "--verif" in args else Path(__file__).resolve().parent.parent
jobs = int(args[args.index("--jobs") + 1]) if "--jobs" in args else 4
ids = [a for a in args[2:] if a.startswith("C") and a[1:].isdigit()] or [f"C{i:02d}" for i in range(1, 21)]


def one(pid):
    out = []
    for k in range(1, 5):
        d = Path(f"/tmp/mut/out/{pid}{suffix}/change{k}")
        if not (d / "patch.diff").exists():
            continue
        name = f"{pid}-{k + off}"
        p = subprocess.run(["python3", str(verif / "tools/try_mutant.py"), pid, str(d), "--keep", name],
                           capture_output=True, text=True, timeout=4000)
        txt = "\n".join(l for l in p.stdout.splitlines() if "WARN" not in l)
        try:
            r = json.loads(txt)
            line = (f"{name} valid={r.get('valid_mutant')} detected={r.get('detected')} "
                    f"with_input={r.get('detected_with_failing_input')} demo={r.get('demo_clean_rc')}/{r.get('demo_changed_rc')} "
                    f"baseline={r.get('baseline_rc')} check_rc={r.get('check_rc')} {r.get('check_s')}s keys={[x['key'] for x in r.get('replays', [])][:4]}")
        except Exception:
            line = f"{name} ERROR {txt[-300:]} {p.stderr[-300:]}"
        print(line, flush=True)
        out.append(line)
    return out


with ThreadPoolExecutor(jobs) as ex:
    list(ex.map(one, ids))
