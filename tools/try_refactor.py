#!/usr/bin/env python3
"""
Evaluate a behaviour-preserving change (false-alarm test):
   try_refactor.py <Cxx> <dir with patch.diff meta.json [equiv.py]> [--keep <name>] [--thorough] [--seed N]

1. scratch worktree of /repo HEAD under /tmp/scratch, apply patch
2. pinned baseline suite must still pass (tools/baseline.py --repo)
3. run `check.py Cxx` against the changed worktree (ODC_GEO_REPO): expected exit 0 and no VIOLATION line
4. remove the worktree; with --keep copy the files to <verif>/seeded/refactors/<name>/ and record what was run
A VIOLATION here is either a false alarm of the machinery (to be corrected) or a change that is not
behaviour-preserving after all (then the replay shows the differing input and the change is discarded).
"""
import json
import os
import shutil
import subprocess
import sys
import time
from pathlib import Path

VERIF = Path(__file__).resolve().parent.parent


def sh(cmd, **kw):
    p = subprocess.run(cmd, shell=True, capture_output=True, text=True, **kw)
    out = "\n".join(l for l in (p.stdout + p.stderr).splitlines() if "WARNING" not in l or "conda" not in l.lower())
    return p.returncode, out


def main():
    prop = sys.argv[1]
    src = Path(sys.argv[2]).resolve()
    keep = sys.argv[sys.argv.index("--keep") + 1] if "--keep" in sys.argv else None
    seed = sys.argv[sys.argv.index("--seed") + 1] if "--seed" in sys.argv else "0"
    tier = "thorough" if "--thorough" in sys.argv else "quick"
    wt = Path(f"/tmp/scratch/ref-{prop}-{os.getpid()}")
    wt.parent.mkdir(parents=True, exist_ok=True)
    res = {"property": prop, "source": str(src), "tier": tier, "seed": seed}
    rc, out = sh(f"git -C /repo worktree add -q --detach {wt} HEAD")
    assert rc == 0, out
    try:
        rc, out = sh(f"git -C {wt} apply {src / 'patch.diff'}")
        if rc != 0:  # /repo moved on since the change was written: try a 3-way merge of the patch
            rc, out = sh(f"git -C {wt} apply --3way {src / 'patch.diff'}")
            res["apply_3way"] = True
        res["apply_rc"] = rc
        if rc != 0:
            res["apply_out"] = out[-500:]
            print(json.dumps(res, indent=1))
            return 2
        rcb, outb = sh(f"python3 {VERIF / 'tools/baseline.py'} --repo {wt}")
        res["baseline_rc"] = rcb
        res["baseline"] = outb.strip().splitlines()[-1] if outb.strip() else ""
        t0 = time.time()
        evf = VERIF / "evidence" / f"{prop}.json"
        ev_backup = evf.read_text() if evf.exists() else None
        envc = dict(os.environ, ODC_GEO_REPO=str(wt), VERIF_SEED=seed)
        rcc, outc = sh(f"/venv/bin/python {VERIF / 'check.py'} {prop} --tier {tier}", env=envc, cwd=str(VERIF), timeout=5400)
        res["check_rc"] = rcc
        res["check_s"] = round(time.time() - t0, 1)
        res["check_lines"] = [l for l in outc.splitlines() if l.startswith(("VIOLATION", "INFRA"))][:10]
        replays = []
        for l in res["check_lines"]:
            if l.startswith("VIOLATION") and "replay=" in l:
                rp = VERIF / l.split("replay=")[1].split(" ")[0]
                if rp.exists():
                    d = json.loads(rp.read_text())
                    replays.append({"key": d.get("key"), "kind": d.get("kind"), "what": str(d.get("what"))[:600],
                                    "case": str(d.get("case"))[:600]})
                    rp.unlink()
        res["replays"] = replays
        if rcc not in (0, 1):
            res["check_tail"] = outc[-1500:]
        if ev_backup is not None:
            evf.write_text(ev_backup)  # evidence must come from runs against /repo itself
        res["valid_refactor"] = rcb == 0
        res["alarm"] = rcc != 0 or any(l.startswith("VIOLATION") for l in res["check_lines"])
    finally:
        sh(f"git -C /repo worktree remove --force {wt}")
    print(json.dumps(res, indent=1))
    if keep:
        dst = VERIF / "seeded" / "refactors" / keep
        dst.mkdir(parents=True, exist_ok=True)
        if src.resolve() != dst.resolve():
            for f in ("patch.diff", "equiv.py"):
                if (src / f).exists():
                    shutil.copy(src / f, dst / f)
        meta = json.loads((src / "meta.json").read_text()) if (src / "meta.json").exists() else {}
        meta["property"] = prop
        meta["verification"] = {k: res[k] for k in res if k not in ("source",)}
        meta["how_verified"] = ("tools/try_refactor.py: scratch worktree of /repo HEAD, patch applied, pinned baseline suite run "
                                "(tools/baseline.py), check.py run against the changed worktree via ODC_GEO_REPO (expected: exit 0, "
                                "no VIOLATION); worktree removed afterwards")
        (dst / "meta.json").write_text(json.dumps(meta, indent=1))
    return 0


if __name__ == "__main__":
    sys.exit(main())
