#!/usr/bin/env python3
"""Run the pinned baseline test-suite of /repo and compare with /root/.vp/BASELINE.json.
Exit 0 iff every stable_pass test still passes."""
import json, os, subprocess, sys, tempfile
import xml.etree.ElementTree as ET

base = json.load(open("/root/.vp/BASELINE.json"))
with tempfile.TemporaryDirectory() as d:
    out = os.path.join(d, "junit.xml")
    repo = sys.argv[sys.argv.index("--repo") + 1] if "--repo" in sys.argv else "/repo"
    cmd = base["cmd"].replace("<file>", out).replace("cd /repo", f"cd {repo}")
    env = dict(os.environ)
    env.pop("ODC_GEO_VERIF", None)
    if repo != "/repo":
        env["PYTHONPATH"] = repo
    p = subprocess.run(cmd, shell=True, capture_output=True, text=True, env=env)
    tree = ET.parse(out)
passed = set()
for tc in tree.iter("testcase"):
    if not any(ch.tag in ("failure", "error", "skipped") for ch in tc):
        passed.add(f"{tc.get('classname')}::{tc.get('name')}")
want = set(base["stable_pass"])
missing = sorted(want - passed)
print(f"baseline: {len(want)} pinned, {len(want & passed)} pass, {len(missing)} missing; extra passes {len(passed - want)}")
for m in missing[:40]:
    print("  MISSING", m)
sys.exit(1 if missing else 0)
