#!/usr/bin/env python3
"""
Evaluate a candidate seeded change:  try_mutant.py <Cxx> <dir with patch.diff demo.py meta.json> [--keep <name>] [--thorough]

1. scratch worktree of /repo HEAD under /tmp/scratch, apply patch
2. pinned baseline suite must still pass (tools/baseline.py --repo)
3. demo.py must fail with the change and pass without it
4. run `check.py Cxx` against the changed worktree (ODC_GEO_REPO) and report VIOLATION lines
5. remove the worktree; with --keep copy the files to /verif/seeded/<name>/ and record what was run
"""
import json
import os
import shutil
import subprocess
import sys
import time
from pathlib import Path

VERIF = Path(__file__).resolve().parent.parent


def sh(cmd, **kw):
    p = subprocess.run(cmd, shell=True, capture_output=True, text=True, **kw)
    out = "\n".join(l for l in (p.stdout + p.stderr).splitlines() if "WARNING" not in l or "conda" not in l.lower())
    return p.returncode, out


def main():
    prop = sys.argv[1]
    src = Path(sys.argv[2]).resolve()
    keep = sys.argv[sys.argv.index("--keep") + 1] if "--keep" in sys.argv else None
    tier = "thorough" if "--thorough" in sys.argv else "quick"
    wt = Path(f"/tmp/scratch/mut-{prop}-{os.getpid()}")
    wt.parent.mkdir(parents=True, exist_ok=True)
    res = {"property": prop, "source": str(src)}
    rc, out = sh(f"git -C /repo worktree add -q --detach {wt} HEAD")
    assert rc == 0, out
    try:
        env = dict(os.environ, PYTHONPATH=str(wt))
        # demo on clean tree
        rc0, out0 = sh(f"/venv/bin/python {src / 'demo.py'}", env=env, cwd=str(wt))
        res["demo_clean_rc"] = rc0
        rc, out = sh(f"git -C {wt} apply {src / 'patch.diff'}")
        rebased = None
        if rc != 0:  # /repo moved on (fix: commits) since the change was written: try a 3-way merge of the patch
            rc, out = sh(f"git -C {wt} apply --3way {src / 'patch.diff'}")
            if rc == 0:
                sh(f"git -C {wt} reset -q")
                _, rebased = sh(f"git -C {wt} diff")
                res["rebased_on"] = sh("git -C /repo rev-parse --short HEAD")[1].strip()
        res["apply_rc"] = rc
        if rc != 0:
            res["apply_out"] = out[-500:]
            print(json.dumps(res, indent=1))
            return 2
        rc1, out1 = sh(f"/venv/bin/python {src / 'demo.py'}", env=env, cwd=str(wt))
        res["demo_changed_rc"] = rc1
        res["demo_changed_tail"] = out1[-400:]
        rcb, outb = sh(f"python3 {VERIF / 'tools/baseline.py'} --repo {wt}")
        res["baseline_rc"] = rcb
        res["baseline"] = outb.strip().splitlines()[-1] if outb.strip() else ""
        t0 = time.time()
        evf = VERIF / "evidence" / f"{prop}.json"
        ev_backup = evf.read_text() if evf.exists() else None
        envc = dict(os.environ, ODC_GEO_REPO=str(wt))
        rcc, outc = sh(f"/venv/bin/python {VERIF / 'check.py'} {prop} --tier {tier}", env=envc, cwd=str(VERIF), timeout=3600)
        res["check_rc"] = rcc
        res["check_s"] = round(time.time() - t0, 1)
        res["check_lines"] = [l for l in outc.splitlines() if l.startswith(("VIOLATION", "KNOWN-FINDING", "INFRA"))][:10]
        replays = []
        for l in res["check_lines"]:
            if l.startswith("VIOLATION") and "replay=" in l:
                rp = VERIF / l.split("replay=")[1].split(" ")[0]
                if rp.exists():
                    d = json.loads(rp.read_text())
                    replays.append({"key": d.get("key"), "kind": d.get("kind"), "what": str(d.get("what"))[:300]})
                    rp.unlink()
        res["replays"] = replays
        if ev_backup is not None:
            evf.write_text(ev_backup)  # evidence must come from runs against /repo itself
        res["valid_mutant"] = rc0 == 0 and rc1 != 0 and rcb == 0
        res["detected"] = rcc == 1 and any(l.startswith("VIOLATION") for l in res["check_lines"])
        res["detected_with_failing_input"] = res["detected"] and any(
            "no-failing-input-found" not in l for l in res["check_lines"] if l.startswith("VIOLATION"))
    finally:
        sh(f"git -C /repo worktree remove --force {wt}")
    print(json.dumps(res, indent=1))
    if keep:
        dst = VERIF / "seeded" / keep
        dst.mkdir(parents=True, exist_ok=True)
        if src.resolve() != dst.resolve():
            shutil.copy(src / "patch.diff", dst / "patch.diff")
            shutil.copy(src / "demo.py", dst / "demo.py")
        if rebased:
            if not (dst / "patch.orig.diff").exists():
                shutil.copy(dst / "patch.diff", dst / "patch.orig.diff")
            (dst / "patch.diff").write_text(rebased + "\n")
        meta = json.loads((src / "meta.json").read_text()) if (src / "meta.json").exists() else {}
        meta["property"] = prop
        meta["verification"] = {k: res[k] for k in res if k not in ("source",)}
        meta["how_verified"] = ("tools/try_mutant.py: scratch worktree of /repo HEAD, patch applied, pinned baseline suite run "
                                "(tools/baseline.py), demo.py run with and without the patch, check.py run against the "
                                "changed worktree via ODC_GEO_REPO; worktree removed afterwards")
        (dst / "meta.json").write_text(json.dumps(meta, indent=1))
    return 0


if __name__ == "__main__":
    sys.exit(main())
