#!/usr/bin/env python3
"""Regenerate the generated sections of DESIGN.md (between BEGIN/END markers) from
known_findings.json and seeded/*/meta.json."""
import json, re
from pathlib import Path
ROOT = Path(__file__).resolve().parent.parent
kf = json.loads((ROOT / "known_findings.json").read_text())["findings"]
rows = ["| id | prop | status | commit | oracle key | what |", "|---|---|---|---|---|---|"]
for f in sorted(kf, key=lambda f: (f["property"], f["id"])):
    what = re.sub(r"^fixed: property=C\d+ (\w+ )?", "", f["what"]).replace("|", "\\|")
    rows.append(f"| {f['id']} | {f['property']} | {f['status']} | {f.get('commit','')} | `{f['key']}` | {what} |")
findings = "\n".join(rows)
srows = ["| seeded | prop | what it changes | needs | detected | failing input | oracle keys |", "|---|---|---|---|---|---|---|"]
for d in sorted((ROOT / "seeded").glob("*/meta.json")):
    m = json.loads(d.read_text())
    v = m.get("verification", {})
    keys = ", ".join(sorted({str(r.get("key")) for r in v.get("replays", []) if r.get("key")}))[:160]
    summ = (m.get("summary") or "").split(". ")[0][:220].replace("|", "\\|").replace("\n", " ")
    needs = (m.get("needs") or "")[:160].replace("|", "\\|").replace("\n", " ")
    srows.append(f"| {d.parent.name} | {m.get('property')} | {summ} | {needs} | {'yes' if v.get('detected') else 'NO'} | "
                 f"{'yes' if v.get('detected_with_failing_input') else 'no'} | {keys} |")
seeded = "\n".join(srows)
rrows = ["| refactor | prop | kinds | what it changes (behaviour-preserving) | baseline | check exit | alarm |", "|---|---|---|---|---|---|---|"]
for d in sorted((ROOT / "seeded" / "refactors").glob("*/meta.json")):
    m = json.loads(d.read_text())
    v = m.get("verification", {})
    summ = (m.get("summary") or "").split(". ")[0][:260].replace("|", "\\|").replace("\n", " ")
    kinds = str(m.get("kinds", ""))[:40].replace("|", "/")
    rrows.append(f"| {d.parent.name} | {m.get('property')} | {kinds} | {summ} | {'pass' if v.get('baseline_rc') == 0 else 'FAIL'} | "
                 f"{v.get('check_rc')} | {'ALARM' if v.get('alarm') else 'none'} |")
refactors = "\n".join(rrows)
# per-property status from the evidence files of the last runs
props = {json.loads(l)["id"]: json.loads(l) for l in (ROOT / "properties.jsonl").read_text().splitlines() if l.strip()}
strows = ["| prop | title | theorems | _partial | _cex | tier | correspondence cases (mismatches) | oracle evaluations | known findings hit | wall s |",
          "|---|---|---|---|---|---|---|---|---|---|"]
for pid in sorted(props):
    ev = ROOT / "evidence" / f"{pid}.json"
    if not ev.exists():
        strows.append(f"| {pid} | {props[pid]['title']} | – | | | | | | | |"); continue
    e = json.loads(ev.read_text()); c = e["coverage"]
    names = [t["name"].split(".")[-1] for t in c.get("theorems", [])]
    npart = sum(1 for n in names if n.endswith("_partial")); ncex = sum(1 for n in names if "cex" in n)
    strows.append(f"| {pid} | {props[pid]['title']} | {c.get('discharged')}/{c.get('obligations')} | {npart} | {ncex} | {e['tier']} | "
                  f"{c.get('correspondence_cases')} ({c.get('correspondence_mismatches')}) | {c.get('oracle_evaluations')} | "
                  f"{', '.join(c.get('known_findings_hit', {}).keys()) or '–'} | {e['wall_s']} |")
status = "\n".join(strows)
man = json.loads((ROOT / "MANIFEST.json").read_text())
ab = []
for c in man["checks"]:
    ab.append(f"**{c['property_id']}** — {c['level_claimed']['text']}\n\n*Assumed / trusted / partial:* {c['level_note']}\n")
asbuilt = "\n".join(ab)
p = ROOT / "DESIGN.md"
s = p.read_text()
sourcetie = (ROOT / "tools/prompts/built/translator_DESIGN_section.md").read_text().rstrip() + "\n\n"
for name, body in (("FINDINGS", findings), ("SEEDED", seeded), ("STATUS", status), ("ASBUILT", asbuilt), ("REFACTORS", refactors), ("SOURCETIE", sourcetie)):
    b, e = f"<!-- BEGIN {name} -->", f"<!-- END {name} -->"
    if b in s:
        s = s[: s.index(b) + len(b)] + "\n" + body + "\n" + s[s.index(e):]
p.write_text(s)
print("tables updated")
