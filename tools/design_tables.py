#!/usr/bin/env python3
"""Regenerate the generated sections of DESIGN.md (between BEGIN/END markers) from
known_findings.json and seeded/*/meta.json."""
import json, re
from pathlib import Path
ROOT = Path(__file__).resolve().parent.parent
kf = json.loads((ROOT / "known_findings.json").read_text())["findings"]
rows = ["| id | prop | status | commit | oracle key | what |", "|---|---|---|---|---|---|"]
for f in sorted(kf, key=lambda f: (f["property"], f["id"])):
    what = re.sub(r"^fixed: property=C\d+ (\w+ )?", "", f["what"]).replace("|", "\\|")
    rows.append(f"| {f['id']} | {f['property']} | {f['status']} | {f.get('commit','')} | `{f['key']}` | {what} |")
findings = "\n".join(rows)
srows = ["| seeded | prop | what it changes | needs | detected | failing input | oracle keys |", "|---|---|---|---|---|---|---|"]
for d in sorted((ROOT / "seeded").glob("*/meta.json")):
    m = json.loads(d.read_text())
    v = m.get("verification", {})
    keys = ", ".join(sorted({str(r.get("key")) for r in v.get("replays", []) if r.get("key")}))[:160]
    summ = (m.get("summary") or "").split(". ")[0][:220].replace("|", "\\|").replace("\n", " ")
    needs = (m.get("needs") or "")[:160].replace("|", "\\|").replace("\n", " ")
    srows.append(f"| {d.parent.name} | {m.get('property')} | {summ} | {needs} | {'yes' if v.get('detected') else 'NO'} | "
                 f"{'yes' if v.get('detected_with_failing_input') else 'no'} | {keys} |")
seeded = "\n".join(srows)
p = ROOT / "DESIGN.md"
s = p.read_text()
for name, body in (("FINDINGS", findings), ("SEEDED", seeded)):
    b, e = f"<!-- BEGIN {name} -->", f"<!-- END {name} -->"
    if b in s:
        s = s[: s.index(b) + len(b)] + "\n" + body + "\n" + s[s.index(e):]
p.write_text(s)
print("tables updated")
