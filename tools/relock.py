#!/venv/bin/python
"""Regenerate lean/statements.lock (name -> structural hash of the statement) for claimed properties.
Run deliberately after reviewing that no property theorem was weakened."""
import json, sys
from pathlib import Path
ROOT = Path(__file__).resolve().parent.parent
sys.path.insert(0, str(ROOT))
from harness.common import lean_audit, LOCK_FILE  # noqa
man = json.loads((ROOT / "MANIFEST.json").read_text())
lock = {}
for c in man["checks"]:
    thms, err = lean_audit(c["property_id"])
    if err:
        print("audit failed for", c["property_id"], err[-500:]); sys.exit(1)
    for t in thms:
        lock[t["name"]] = t["hash"]
LOCK_FILE.write_text(json.dumps(lock, indent=0, sort_keys=True) + "\n")
print(f"locked {len(lock)} statements")
