#!/bin/bash
# Re-evaluate every kept seeded change against the current /repo HEAD (scratch worktrees; /repo untouched).
# Properties run in parallel, the changes of one property sequentially (they share evidence/<id>.json).
# usage: tools/seeded_sweep.sh [jobs]
jobs=${1:-4}
cd /verif
ls -d seeded/C??-* | sed 's/-[0-9]*$//' | sort -u | xargs -P $jobs -I{} bash -c '
  for d in {}-*; do id=$(basename $d); pid=${id%%-*}
    timeout 3000 python3 tools/try_mutant.py $pid $d --keep $id 2>&1 | grep -v WARN | python3 -c "
import json,sys
try:
    d=json.load(sys.stdin)
    print(\"$id\", \"valid=%s detected=%s failing_input=%s apply=%s\" % (d.get(\"valid_mutant\"), d.get(\"detected\"), d.get(\"detected_with_failing_input\"), d.get(\"apply_rc\")))
except Exception as e:
    print(\"$id\", \"ERROR\", e)"
  done'
