#!/usr/bin/env python3
"""print the mutation-agent prompt for a property: mkmutprompt.py C06 C06a 3"""
import json, sys
pid, tag, n = sys.argv[1], sys.argv[2], sys.argv[3]
props = {json.loads(l)["id"]: json.loads(l) for l in open("/verif/properties.jsonl")}
p = props[pid]
text = f"id: {pid}\ntitle: {p['title']}\nstatement: {p['statement']}\nquantifier: {p['quantifier']['text']}\nsource files involved: {', '.join(p['anchors']['files'])}"
t = open("/verif/tools/prompts/mutant.md").read()
print(t.replace("{WT}", f"/tmp/mut/{tag}").replace("{OUT}", f"/tmp/mut/out/{tag}").replace("{PROPERTY}", text).replace("{N}", n))
