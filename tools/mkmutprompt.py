#!/usr/bin/env python3
"""print the mutation-agent prompt for a property: mkmutprompt.py C06 C06b 3 [--avoid]
--avoid appends one-line summaries of the seeded changes already kept for that property, so a new round
produces different ideas (nothing else from /verif is revealed)."""
import json, sys, glob
pid, tag, n = sys.argv[1], sys.argv[2], sys.argv[3]
props = {json.loads(l)["id"]: json.loads(l) for l in open("/verif/properties.jsonl")}
p = props[pid]
text = f"id: {pid}\ntitle: {p['title']}\nstatement: {p['statement']}\nquantifier: {p['quantifier']['text']}\nsource files involved: {', '.join(p['anchors']['files'])}"
t = open("/verif/tools/prompts/mutant.md").read()
t = t.replace("{WT}", f"/tmp/mut/{tag}").replace("{OUT}", f"/tmp/mut/out/{tag}").replace("{PROPERTY}", text).replace("{N}", n)
if "--avoid" in sys.argv:
    olds = []
    for f in sorted(glob.glob(f"/verif/seeded/{pid}-*/meta.json")):
        m = json.load(open(f))
        olds.append("- " + (m.get("summary") or "").split(". ")[0][:300].replace("\n", " "))
    if olds:
        t += ("\n\nA previous round already used the following ideas — produce DIFFERENT ones (other functions, other mechanisms, "
              "other kinds of trigger: option combinations, ambient configuration/environment, state carried across calls, "
              "rarely used entry points, interactions between two call sites, platform limits):\n" + "\n".join(olds) + "\n")
if "--plain" in sys.argv:
    t += ("\n\nFocus for this round: PLAIN mutations. Requirement (c) is relaxed: the change does not have to need an exotic "
          "trigger - it only has to survive the existing test-suite.  Make the kind of small, ordinary, single-site edits that "
          "a mutation-testing tool or a hurried maintainer produces anywhere in the code paths behind the property: flipped or "
          "off-by-one comparison, +1/-1, floor vs ceil vs round, swapped arguments or axes (x/y, row/col, src/dst), wrong sign, "
          "min vs max, and vs or, dropped term or dropped branch, wrong default constant, early return, wrong variable reused, "
          "skipped normalisation step.  Prefer the central functions named in the property over peripheral ones, and prefer "
          "edits whose effect shows on ordinary, mid-sized inputs (but which the existing tests happen not to pin down).  Earlier "
          "rounds used serialisation, caches, threads, process state, argument spellings and rare option corners: avoid those.\n")
if "--core" in sys.argv:
    t += ("\n\nFocus for this round: the CORE LOGIC behind the property - arithmetic, rounding direction, comparisons "
          "(< vs <=), sign / axis / operand order, boundary and empty cases, index computations, tolerance handling, "
          "order of operations, which branch handles which case - in the functions that implement the property and in "
          "the helpers they call (also helpers in other modules).  Earlier rounds already covered serialisation, caches, "
          "threads, process state and argument type/spelling tricks: do NOT use those mechanisms this time.  Still obey "
          "(a)-(d): the change must survive the existing tests and must need a specific (but legitimate, in-range) input "
          "or option combination to show.\n")
if "--glue" in sys.argv:
    t += ("\n\nFocus for this round: the GLUE around the core - public entry points and what sits between a caller's "
          "arguments and the core computation: argument normalisation and defaults, dispatch on argument type or on option "
          "combinations, keyword forwarding between layers, conversions between representations (tuple / slice / named tuple / "
          "numpy scalar / object), results assembled from several helper calls, rarely used but documented entry points and "
          "methods, the second or third step of a multi-step use (derive an object from another one, then use the derived one), "
          "and pairs of cooperating sites where each edit looks fine alone.  Earlier rounds already used: single-site arithmetic "
          "slips in the central helpers, serialisation, caches, threads, process state.  Still obey (a)-(d).\n")
print(t)
