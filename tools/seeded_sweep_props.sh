#!/bin/bash
# Re-evaluate the kept seeded changes of the given properties against the current /repo HEAD.
# usage: tools/seeded_sweep_props.sh <jobs> C02 C16 ...
jobs=$1; shift
cd /verif
printf '%s\n' "$@" | xargs -P $jobs -I{} bash -c '
  for d in seeded/{}-*; do id=$(basename $d); pid=${id%%-*}
    timeout 3000 python3 tools/try_mutant.py $pid $d --keep $id 2>&1 | grep -v WARN | python3 -c "
import json,sys
try:
    d=json.load(sys.stdin)
    print(\"$id\", \"valid=%s detected=%s failing_input=%s apply=%s %ss\" % (d.get(\"valid_mutant\"), d.get(\"detected\"), d.get(\"detected_with_failing_input\"), d.get(\"apply_rc\"), d.get(\"check_s\")), flush=True)
except Exception as e:
    print(\"$id\", \"ERROR\", e, flush=True)"
  done'
