#!/bin/bash
# usage: tools/evalmut.sh C02 C02b [offset]  -> evaluates /tmp/mut/out/C02b/change1..3, keeps as seeded/C02-(k+offset), removes the worktree
pid=$1; tag=$2; off=${3:-0}
for k in 1 2 3 4; do
  [ -f /tmp/mut/out/$tag/change$k/patch.diff ] || continue
  n=$((k+off))
  timeout 3000 python3 /verif/tools/try_mutant.py $pid /tmp/mut/out/$tag/change$k --keep $pid-$n 2>&1 | grep -v WARN | python3 -c "
import json,sys
d=json.load(sys.stdin)
print('$pid-$n',{k:d.get(k) for k in ('demo_clean_rc','demo_changed_rc','baseline_rc','check_rc','check_s','valid_mutant','detected','detected_with_failing_input')})
print('   ',[r['key'] for r in d.get('replays',[])][:5])"
done
git -C /repo worktree remove --force /tmp/mut/$tag 2>/dev/null
