#!/venv/bin/python
import json, sys
from pathlib import Path
ROOT = Path(__file__).resolve().parent.parent
sys.path.insert(0, str(ROOT))
from harness.registry import claimed, ALL, PENDING_REASON, NOT_APPLICABLE  # noqa
CLAIMED = claimed()
try:
    from harness.gentie import GENTIE_READY  # properties with the source tie switched on (DESIGN §11d)
except Exception:  # pylint: disable=broad-except
    GENTIE_READY = []
TIE_NOTE = (" + source tie: Lean definitions of the leaf helpers are regenerated from /repo's Python source by tools/py2lean.py on every run "
            "and proved equal to the hand model for all inputs (tie_* theorems, DESIGN §11d)")

base = json.load(open("/root/.vp/BASELINE.json")) if Path("/root/.vp/BASELINE.json").exists() else None
checks = []
for pid in ALL:
    if pid not in CLAIMED:
        continue
    c = CLAIMED[pid]
    checks.append({
        "property_id": pid,
        "quick_cmd": f"/venv/bin/python check.py {pid} --tier quick",
        "thorough_cmd": f"/venv/bin/python check.py {pid} --tier thorough",
        "evidence_file": f"evidence/{pid}.json",
        "replay_cmd_template": f"/venv/bin/python check.py {pid} --replay {{path}}",
        "engine": "lean4-proof+correspondence",
        "level_claimed": {"category": "proof", "text": c["text"], "design_ref": c["design_ref"]},
        "level_note": c["note"],
        "technique": c["technique"] + (TIE_NOTE if pid in GENTIE_READY else ""),
    })
na = [{"property_id": p, "reason": NOT_APPLICABLE.get(p, PENDING_REASON)} for p in ALL if p not in CLAIMED]
man = {
    "version": 1,
    "setup_cmd": "python3 tools/setup.py",
    "hooks": {
        "guard": "ODC_GEO_VERIF",
        "enable": "export ODC_GEO_VERIF=1 (set by check.py); no instrumentation commit exists in /repo: all interception is done from the harness by substituting module attributes",
        "baseline_off_cmd": "cd /repo && /venv/bin/python -m pytest -ra -q -p no:cacheprovider --timeout=900 --continue-on-collection-errors",
        "source_commits": [],
        "add_only": True,
    },
    "engines": [{
        "name": "lean4-proof+correspondence",
        "path": "check.py",
        "serves_properties": [c["property_id"] for c in checks],
        "kind_free_text": "Lean 4 theorems about hand-written models (lean/OdcGeo), audited for axioms on every run; models tied to /repo by a differential correspondence harness (harness/) driving the real code and the Lean driver over the same line protocol, and for 62 pure leaf functions additionally by a translator that regenerates their Lean definitions from the Python source on every run with kernel-checked equality to the hand model; exact-rational property oracles search for failing inputs",
    }],
    "checks": checks,
    "not_applicable": na,
    "notes": "Fix commits in /repo are recorded in known_findings.json (status fixed). See DESIGN.md.",
}
(ROOT / "MANIFEST.json").write_text(json.dumps(man, indent=1) + "\n")
print(f"MANIFEST.json: {len(checks)} checks, {len(na)} not claimed")
