#!/usr/bin/env python3
"""
py2lean — regenerate Lean 4 definitions from the Python source of odc-geo (restricted subset).

    python3 tools/py2lean.py [C17 C20 ...]        # regenerate lean/OdcGeo/Gen/Cxx.lean for the given properties
    python3 tools/py2lean.py --check C17          # exit 1 if the file on disk differs from what would be generated

The manifest is `harness/gentie_targets.py` (`TARGETS[pid]`): for every function the python module path, the
qualified name (`f`, `Class.method`, `outer.inner` for a nested function), the Lean name, the parameter types and
the return type.  The source tree is `$ODC_GEO_REPO` if set, else `/repo` (same convention as check.py).

Semantics (see lean/OdcGeo/Gen/PyPrelude.lean and DESIGN "source tie"): ints -> `Int`, floats -> exact `Rat`,
`//` `%` -> `Int.fdiv` / `Int.fmod`, `int()` -> truncation, `round()` -> half-even, `assert` / `raise` /
division by zero -> `Except ErrKind`, `while` -> structural recursion on a fuel argument (fuel expression given in
the manifest; running out of fuel is the error `notImplemented`, and the tie theorem shows it is not reached).

The translation is *semantic*: statements become a pure expression in continuation style (an `if` whose branch
returns and an `if/else` produce the same term; locals are renamed apart), so harmless rewrites of the Python
source produce definitions that the tie theorems still prove equal to the hand model.

A construct outside the subset raises `Untranslatable` naming the construct and the line: the function is then
reported as failed (never skipped silently, never approximated).
"""
from __future__ import annotations

import ast
import hashlib
import os
import sys
from fractions import Fraction
from pathlib import Path
from typing import Any, Dict, List, Optional, Tuple

VERIF = Path(__file__).resolve().parent.parent
GEN_DIR = VERIF / "lean" / "OdcGeo" / "Gen"


def repo_dir() -> Path:
    return Path(os.environ.get("ODC_GEO_REPO") or "/repo")


class Untranslatable(Exception):
    pass


# ----------------------------------------------------------------------------------------------- types
# A type is a tuple: ("int",) ("float",) ("bool",) ("none",) ("opt", T) ("tuple", (T1, ..)) ("list", T)
# ("struct", name) ("intorslice", name) ("pslice", name)   [pslice: the slice alternative of an intorslice, symbolic]
INT, FLOAT, BOOL, NONE = ("int",), ("float",), ("bool",), ("none",)


def parse_type(s: str, named: Dict[str, Any]) -> tuple:
    s = s.strip()
    if s in ("int", "float", "bool", "none", "nat"):
        return (s,)
    if s == "shape2d":
        return ("shape2d",)
    if s.startswith("xy[") and s.endswith("]"):
        return ("xy", parse_type(s[3:-1], named))
    if s.startswith("opt[") and s.endswith("]"):
        return ("opt", parse_type(s[4:-1], named))
    if s.startswith("list[") and s.endswith("]"):
        return ("list", parse_type(s[5:-1], named))
    if s.startswith("tuple[") and s.endswith("]"):
        parts, depth, cur = [], 0, ""
        for ch in s[6:-1]:
            if ch == "[":
                depth += 1
            if ch == "]":
                depth -= 1
            if ch == "," and depth == 0:
                parts.append(cur)
                cur = ""
            else:
                cur += ch
        parts.append(cur)
        return ("tuple", tuple(parse_type(p, named) for p in parts))
    if s in named:
        return (named[s]["kind"], s)
    raise Untranslatable(f"unknown type '{s}' in manifest")


class Ctx:
    """per-property translation context: named types and the functions known so far"""

    def __init__(self, pid: str, spec: Dict[str, Any]):
        self.pid = pid
        self.named = spec.get("types", {})
        self.funcs: Dict[str, "FnInfo"] = {}  # python simple / qualified name -> info
        self.spec = spec
        self.src_cache: Dict[Path, Tuple[str, ast.Module]] = {}
        self.auto: Dict[tuple, "FnInfo"] = {}      # (module, name, argument types) -> helper translated on the fly
        self.auto_new: List["FnInfo"] = []         # created since the last flush (emitted before their first caller)
        self.auto_busy: set = set()

    def lean_type(self, t: tuple) -> str:
        k = t[0]
        if k == "int":
            return "Int"
        if k == "float":
            return "Rat"
        if k == "nat":
            return "Nat"   # opaque token (e.g. a CRS identity): only passed through and compared
        if k == "bool":
            return "Bool"
        if k == "none":
            return "Unit"
        if k == "xy":
            return f"({self.lean_type(t[1])} × {self.lean_type(t[1])})"   # (x, y)
        if k == "shape2d":
            return "(Int × Int)"                                           # (x, y) = (nx, ny)
        if k == "opt":
            return f"(Option {self.lean_type(t[1])})"
        if k == "list":
            return f"(List {self.lean_type(t[1])})"
        if k == "tuple":
            return "(" + " × ".join(self.lean_type(x) for x in t[1]) + ")"
        if k in ("struct", "intorslice", "intorpair"):
            return self.named[t[1]]["lean"]
        raise Untranslatable(f"type {t} has no Lean form")

    def struct_fields(self, t: tuple) -> List[Tuple[str, tuple]]:
        return [(n, parse_type(ty, self.named)) for n, ty in self.named[t[1]]["fields"]]


class FnInfo:
    def __init__(self, entry: Dict[str, Any], ctx: Ctx):
        self.entry = entry
        self.py = entry["py"]
        self.lean = entry["lean"]
        self.params = [(n, parse_type(t, ctx.named)) for n, t in entry["params"]]
        self.ret = parse_type(entry["ret"], ctx.named) if entry.get("ret") else None  # None: inferred (auto helper)
        self.res = False  # can raise
        self.node: Optional[ast.FunctionDef] = None
        self.own_args: List[str] = []
        self.defaults: Dict[str, ast.expr] = {}
        self.error: Optional[str] = None
        self.text = ""
        self.src_hash = ""
        self.is_ctor = False
        self.is_method = False
        self.absent = False  # optional helper that the source no longer has


# ----------------------------------------------------------------------------------------------- values
class V:
    """a Lean term of a known type"""

    def __init__(self, lean: str, ty: tuple, lit: Optional[Fraction] = None):
        self.lean = lean
        self.ty = ty
        self.lit = lit  # numeric literal value if the term is one


class Tup:
    def __init__(self, items: List[Any]):
        self.items = items

    @property
    def ty(self):
        return ("tuple", tuple(i.ty for i in self.items))


class XYv:
    """an `XY` / `Index2d` / `Resolution` / `Shape2d` value: the pair of its x and y; a `Shape2d` iterates as (y, x)"""

    def __init__(self, x, y, shape: bool = False):
        self.x, self.y, self.shape = x, y, shape

    @property
    def ty(self):
        return ("shape2d",) if self.shape else ("xy", self.x.ty)


class Rec:
    """symbolic record: a narrowed slice or a structure under construction"""

    def __init__(self, ty: tuple, fields: Dict[str, Any]):
        self.ty = ty
        self.fields = fields


# constructor functions of odc.geo.types: argument order and whether the result is a Shape2d
XY_CTORS = {"xy_": ("xy", False), "ixy_": ("xy", False), "resxy_": ("xy", False), "wh_": ("xy", True),
            "yx_": ("yx", False), "iyx_": ("yx", False), "resyx_": ("yx", False), "shape_": ("yx", True)}

LEAN_KEYWORDS = set(
    """in from at end do then else if let have show fun match with by open local prefix section namespace def theorem
    where deriving instance structure class Type Prop Sort variable universe import export mutual macro syntax notation
    infix postfix private protected partial unsafe noncomputable attribute example axiom abbrev inductive extends using
    calc nomatch nofun return for unless try catch finally mut break continue suffices obtain max min some none true
    false fuel e""".split()
)

ERR_OF_EXC = {
    "ValueError": "valueError",
    "IndexError": "indexError",
    "AssertionError": "assertion",
    "RuntimeError": "runtimeError",
    "NotImplementedError": "notImplemented",
    "ZeroDivisionError": "zeroDiv",
}


def paren(s: str) -> str:
    s = s.strip()
    if s.startswith("(") and _balanced_outer(s):
        return s
    if all(c.isalnum() or c in "_.'" for c in s) and s:
        return s
    return f"({s})"


def _balanced_outer(s: str) -> bool:
    depth = 0
    for i, ch in enumerate(s):
        if ch == "(":
            depth += 1
        elif ch == ")":
            depth -= 1
            if depth == 0 and i != len(s) - 1:
                return False
    return depth == 0


def ind(text: str, n: int = 2) -> str:
    pad = " " * n
    return "\n".join(pad + l if l else l for l in text.split("\n"))


# ----------------------------------------------------------------------------------------------- translator
class FnTranslator:
    def __init__(self, ctx: Ctx, info: FnInfo, res_mode: bool):
        self.ctx = ctx
        self.info = info
        self.res = res_mode
        self.raised = False
        self.used: set = set()
        self.pre_stack: List[List[tuple]] = [[]]
        self.aux: List[str] = []  # auxiliary definitions (loops)
        self.loop_count = 0
        self.ret_types: List[tuple] = []

    # -- helpers
    def fail(self, node, what: str):
        ln = getattr(node, "lineno", "?")
        raise Untranslatable(f"{self.info.py}: line {ln}: {what}")

    def fresh(self, base: str) -> str:
        base = base.lstrip("_") or "v"
        if not base[0].isalpha():
            base = "v" + base
        cand = base
        if cand in LEAN_KEYWORDS:
            cand = base + "_"
        k = 0
        while cand in self.used:
            k += 1
            cand = f"{base}_{k}"
        self.used.add(cand)
        return cand

    @property
    def pre(self) -> List[tuple]:
        return self.pre_stack[-1]

    def err(self, kind: str) -> str:
        self.raised = True
        return f"(.error .{kind})"

    def wrap_pre(self, pre: List[tuple], body: str) -> str:
        """guards / binds needed before `body` may be evaluated (in evaluation order)"""
        out = body
        for item in reversed(pre):
            if item[0] == "guard":
                _, cond, kind = item
                out = f"if {cond} then {self.err(kind)} else\n{out}"
            elif item[0] == "bind":
                _, name, call = item
                self.raised = True
                out = f"match {call} with\n| .error e => .error e\n| .ok {name} =>\n{ind(out)}"
                out = f"({out})"
            elif item[0] == "let":
                _, name, term = item
                out = f"let {name} := {term}\n{out}"
        return out

    def ok(self, term: str) -> str:
        return f"(.ok {paren(term)})" if self.res else term

    # -- coercions
    def as_xy(self, cv) -> Optional[XYv]:
        if isinstance(cv, XYv):
            return cv
        if isinstance(cv, V) and cv.ty[0] in ("xy", "shape2d"):
            t = INT if cv.ty[0] == "shape2d" else cv.ty[1]
            return XYv(V(f"{paren(cv.lean)}.1", t), V(f"{paren(cv.lean)}.2", t), cv.ty[0] == "shape2d")
        return None

    def materialise(self, cv) -> V:
        if isinstance(cv, V):
            return cv
        if isinstance(cv, XYv):
            a, b, ty = self.num2(self.materialise(cv.x), self.materialise(cv.y), None) if not cv.shape else \
                (self.coerce(cv.x, INT, None), self.coerce(cv.y, INT, None), INT)
            return V(f"({a.lean}, {b.lean})", ("shape2d",) if cv.shape else ("xy", ty))
        if isinstance(cv, Tup):
            items = [self.materialise(i) for i in cv.items]
            return V("(" + ", ".join(i.lean for i in items) + ")", ("tuple", tuple(i.ty for i in items)))
        if isinstance(cv, Rec):
            if cv.ty[0] == "struct":
                fs = self.ctx.struct_fields(cv.ty)
                parts = []
                for n, t in fs:
                    if n not in cv.fields:
                        raise Untranslatable(f"{self.info.py}: field '{n}' of {cv.ty[1]} is never set")
                    parts.append(self.coerce(cv.fields[n], t, None).lean)
                return V(f"(⟨{', '.join(parts)}⟩ : {self.ctx.lean_type(cv.ty)})", cv.ty)
            if cv.ty[0] == "pslice":
                nm = self.ctx.named[cv.ty[1]]
                a = self.coerce(cv.fields["start"], ("opt", INT), None).lean
                b = self.coerce(cv.fields["stop"], ("opt", INT), None).lean
                return V(f"({nm['lean']}{nm['slice_ctor']} {paren(a)} {paren(b)})", ("intorslice", cv.ty[1]))
        raise Untranslatable(f"{self.info.py}: cannot materialise {cv}")

    def coerce(self, cv, ty: tuple, node) -> V:
        if ty[0] in ("xy", "shape2d"):
            xy = self.as_xy(cv)
            if xy is None:
                self.fail(node, f"value of type {fmt_ty(cv.ty)} used where {fmt_ty(ty)} is expected")
            t = INT if ty[0] == "shape2d" else ty[1]
            a, b = self.coerce(xy.x, t, node), self.coerce(xy.y, t, node)
            return V(f"({a.lean}, {b.lean})", ty)
        if isinstance(cv, XYv):
            self.fail(node, f"XY value used where {fmt_ty(ty)} is expected")
        if isinstance(cv, Tup) and ty[0] == "intorpair" and len(cv.items) == 2:
            nm = self.ctx.named[ty[1]]
            a, b = (self.coerce(i, INT, node) for i in cv.items)
            return V(f"({nm['lean']}{nm['pair_ctor']} {paren(a.lean)} {paren(b.lean)})", ty)
        if isinstance(cv, Tup):
            if ty[0] != "tuple" or len(ty[1]) != len(cv.items):
                self.fail(node, f"tuple of {len(cv.items)} used where {ty} is expected")
            items = [self.coerce(i, t, node) for i, t in zip(cv.items, ty[1])]
            return V("(" + ", ".join(i.lean for i in items) + ")", ty)
        if isinstance(cv, Rec):
            m = self.materialise(cv)
            return self.coerce(m, ty, node)
        src = cv.ty
        if src == ty:
            return cv
        if src == INT and ty == FLOAT:
            if cv.lit is not None:
                return V(f"({rat_lit(cv.lit)} : Rat)", FLOAT, cv.lit)
            return V(f"(({cv.lean} : Int) : Rat)", FLOAT)
        if ty[0] == "opt":
            if src == NONE:
                return V(f"(none : {self.ctx.lean_type(ty)})", ty)
            inner = self.coerce(cv, ty[1], node)
            return V(f"(some {paren(inner.lean)})", ty)
        if ty[0] == "intorslice":
            nm = self.ctx.named[ty[1]]
            if src == INT:
                return V(f"({nm['lean']}{nm['int_ctor']} {paren(cv.lean)})", ty)
            if src[0] == "struct" and self.ctx.named[src[1]].get("pyclass") == "slice":
                return V(f"({nm['lean']}{nm['slice_ctor']} (some {paren(cv.lean)}.start) (some {paren(cv.lean)}.stop))", ty)
        if ty[0] == "intorpair":
            nm = self.ctx.named[ty[1]]
            if src == INT:
                return V(f"({nm['lean']}{nm['int_ctor']} {paren(cv.lean)})", ty)
            if src == ("tuple", (INT, INT)):
                a, b = self.tuple_components(cv)
                return V(f"({nm['lean']}{nm['pair_ctor']} {paren(a.lean)} {paren(b.lean)})", ty)
        if src[0] == "tuple" and ty[0] == "tuple" and len(src[1]) == len(ty[1]):
            comps = self.tuple_components(cv)
            return self.coerce(Tup(comps), ty, node)
        self.fail(node, f"value of type {fmt_ty(src)} used where {fmt_ty(ty)} is expected")

    def tuple_components(self, cv) -> List[Any]:
        if isinstance(cv, Tup):
            return cv.items
        xy = self.as_xy(cv)
        if xy is not None:
            if xy.shape:
                return [xy.y, xy.x]   # `Shape2d.__iter__`: (ny, nx)
            raise Untranslatable(f"{self.info.py}: an XY value is not iterable (use .xy / .yx)")
        if isinstance(cv, V) and cv.ty[0] == "struct" and "iter" in self.ctx.named[cv.ty[1]]:
            return [self.attr(cv, f, None) for f in self.ctx.named[cv.ty[1]]["iter"]]
        if isinstance(cv, V) and cv.ty[0] == "tuple":
            n = len(cv.ty[1])
            out = []
            for i, t in enumerate(cv.ty[1]):
                proj = ".2" * i + (".1" if i < n - 1 else "")
                out.append(V(f"{paren(cv.lean)}{proj}", t))
            return out
        raise Untranslatable(f"{self.info.py}: not a tuple: {cv}")

    # -- expressions
    def ex(self, node, env) -> Any:
        m = getattr(self, "ex_" + type(node).__name__, None)
        if m is None:
            self.fail(node, f"unsupported expression '{type(node).__name__}'")
        return m(node, env)

    def ex_Constant(self, node, env):
        v = node.value
        if v is None:
            return V("()", NONE)
        if isinstance(v, bool):
            return V("true" if v else "false", BOOL)
        if isinstance(v, int):
            return V(f"({v} : Int)", INT, Fraction(v))
        if isinstance(v, float):
            f = Fraction(v)  # exact value of the double
            return V(f"({rat_lit(f)} : Rat)", FLOAT, f)
        self.fail(node, f"unsupported constant {v!r}")

    def ex_Name(self, node, env):
        if node.id not in env:
            self.fail(node, f"unknown name '{node.id}'")
        return env[node.id]

    def ex_Tuple(self, node, env):
        return Tup([self.ex(e, env) for e in node.elts])

    ex_List = ex_Tuple

    def ex_Attribute(self, node, env):
        base = self.ex(node.value, env)
        return self.attr(base, node.attr, node)

    def attr(self, base, name: str, node):
        xy = self.as_xy(base)
        if xy is not None:
            if name in ("x", "lon"):
                return xy.x
            if name in ("y", "lat"):
                return xy.y
            if name in ("xy", "wh", "lonlat"):
                return Tup([xy.x, xy.y])
            if name in ("yx", "shape", "latlon"):
                return Tup([xy.y, xy.x])
            self.fail(node, f"attribute '.{name}' of an XY value")
        if isinstance(base, Rec):
            if name in base.fields:
                return base.fields[name]
            self.fail(node, f"attribute '.{name}' of {fmt_ty(base.ty)} is not available here")
        if isinstance(base, V) and base.ty[0] == "struct":
            spec = self.ctx.named[base.ty[1]]
            for n, t in self.ctx.struct_fields(base.ty):
                if n == name:
                    return V(f"{paren(base.lean)}.{spec.get('lean_fields', {}).get(n, n)}", t)
            if spec.get("pyclass") == "slice" and name == "step":
                return V("()", NONE)
            alias = spec.get("attrs", {}).get(name)
            if isinstance(alias, str):
                return self.attr(base, alias, node)
            if isinstance(alias, list):
                return Tup([self.attr(base, a, node) for a in alias])
            if isinstance(alias, dict):
                if "xy" in alias or "shape" in alias:
                    fx, fy = alias.get("xy") or alias.get("shape")
                    return XYv(self.attr(base, fx, node), self.attr(base, fy, node), "shape" in alias)
                if "none" in alias:
                    return V("()", NONE)   # declared abstraction: the attribute is outside the model (e.g. the CRS)
            q = f"{spec.get('pyclass', base.ty[1])}.{name}"
            prop = self.ctx.funcs.get(q)
            if prop is not None and prop.node is not None and any(ast.unparse(d) == "property" for d in prop.node.decorator_list):
                return self.call_known(prop, [], [], {}, node, base)
        self.fail(node, f"attribute '.{name}' on a value of type {fmt_ty(base.ty)}")

    def ex_Subscript(self, node, env):
        base = self.ex(node.value, env)
        if isinstance(base, V) and base.ty[0] == "struct":
            q = f"{self.ctx.named[base.ty[1]].get('pyclass', base.ty[1])}.__getitem__"
            if q in self.ctx.funcs and not isinstance(node.slice, ast.Slice):
                return self.call_known(self.ctx.funcs[q], [node.slice], [], env, node, base)
        if isinstance(base, V) and base.ty[0] == "list" and not isinstance(node.slice, ast.Slice):
            i = self.ex(node.slice, env)
            if not (isinstance(i, V) and i.ty == INT):
                self.fail(node, "list subscript with a non-integer index")
            tmp = self.fresh("el")
            self.pre.append(("bind", tmp, f"Py.listGet {paren(base.lean)} {paren(i.lean)}"))
            return V(tmp, base.ty[1])
        idx = self.ex(node.slice, env) if not isinstance(node.slice, ast.Slice) else None
        if idx is None or not isinstance(idx, V) or idx.lit is None or idx.ty != INT:
            self.fail(node, "subscript with an index that is not a literal integer")
        comps = self.tuple_components(base) if (isinstance(base, Tup) or (isinstance(base, V) and base.ty[0] == "tuple")) else None
        if comps is None:
            self.fail(node, f"subscript on a value of type {fmt_ty(base.ty)}")
        i = int(idx.lit)
        if not -len(comps) <= i < len(comps):
            self.fail(node, "tuple index out of range")
        return comps[i]

    def ex_UnaryOp(self, node, env):
        if isinstance(node.op, ast.Not):
            return V(f"decide ({self.prop(node, env)})", BOOL)
        x = self.ex(node.operand, env)
        if not isinstance(x, V) or x.ty not in (INT, FLOAT):
            self.fail(node, "unary operator on a non-number")
        if isinstance(node.op, ast.USub):
            lit = -x.lit if x.lit is not None else None
            if lit is not None:
                return V(f"({rat_lit(lit)} : {'Int' if x.ty == INT else 'Rat'})", x.ty, lit)
            return V(f"(-{paren(x.lean)})", x.ty)
        if isinstance(node.op, ast.UAdd):
            return x
        self.fail(node, f"unsupported unary operator {type(node.op).__name__}")

    def num2(self, a, b, node):
        if not (isinstance(a, V) and isinstance(b, V) and a.ty in (INT, FLOAT) and b.ty in (INT, FLOAT)):
            self.fail(node, "arithmetic on non-numbers")
        ty = INT if (a.ty == INT and b.ty == INT) else FLOAT
        return self.coerce(a, ty, node), self.coerce(b, ty, node), ty

    def ex_BinOp(self, node, env):
        a = self.ex(node.left, env)
        b = self.ex(node.right, env)
        op = node.op
        if isinstance(op, (ast.Add, ast.Sub, ast.Mult)):
            a, b, ty = self.num2(a, b, node)
            sym = {ast.Add: "+", ast.Sub: "-", ast.Mult: "*"}[type(op)]
            return V(f"({a.lean} {sym} {b.lean})", ty)
        if isinstance(op, ast.Div):
            a = self.coerce(a, FLOAT, node)
            b = self.coerce(b, FLOAT, node)
            self.zero_guard(b)
            return V(f"({a.lean} / {b.lean})", FLOAT)
        if isinstance(op, (ast.FloorDiv, ast.Mod)):
            a, b, ty = self.num2(a, b, node)
            self.zero_guard(b)
            if ty == INT:
                f = "Int.fdiv" if isinstance(op, ast.FloorDiv) else "Int.fmod"
            else:
                f = "Py.rfloordiv" if isinstance(op, ast.FloorDiv) else "Py.rmod"
            return V(f"({f} {paren(a.lean)} {paren(b.lean)})", ty)
        if isinstance(op, ast.Pow):
            if isinstance(a, V) and isinstance(b, V) and a.ty == INT and b.ty == INT and self.nonneg(b):
                return V(f"(Py.ipow {paren(a.lean)} {paren(b.lean)})", INT)
            if isinstance(a, V) and isinstance(b, V) and a.ty == INT and b.ty == INT:
                # int ** int with a negative exponent is a float in Python: outside the translated domain.  Guarded, so
                # the definition never silently differs; the tie theorem shows the guard is not reached.
                self.pre.append(("guard", f"{b.lean} < (0 : Int)", "notImplemented"))
                return V(f"(Py.ipow {paren(a.lean)} {paren(b.lean)})", INT)
            self.fail(node, "'**' with an exponent that is not visibly a non-negative integer")
        self.fail(node, f"unsupported operator {type(op).__name__}")

    def nonneg(self, v: V) -> bool:
        return (v.lit is not None and v.lit >= 0) or v.lean.startswith("(Py.ceilLog2 ")

    def zero_guard(self, b: V):
        if b.lit is not None:
            if b.lit == 0:
                self.pre.append(("guard", "True", "zeroDiv"))
            return
        zero = "(0 : Int)" if b.ty == INT else "(0 : Rat)"
        g = ("guard", f"{b.lean} = {zero}", "zeroDiv")
        if g not in self.pre:  # the same divisor was already checked earlier in this statement
            self.pre.append(g)

    def ex_Compare(self, node, env):
        return V(f"decide ({self.prop(node, env)})", BOOL)

    def ex_BoolOp(self, node, env):
        return V(f"decide ({self.prop(node, env)})", BOOL)

    def ex_IfExp(self, node, env):
        nar = self.narrowing(node.test, env)
        if nar is not None:
            return self.narrow_expr(nar, node.body, node.orelse, env, node)
        c = self.prop(node.test, env)
        a = self.sub_ex(node.body, env, "conditional expression")
        b = self.sub_ex(node.orelse, env, "conditional expression")
        a, b = self.join(a, b, node)
        return V(f"(if {c} then {a.lean} else {b.lean})", a.ty)

    def join(self, a, b, node):
        a = self.materialise(a) if not isinstance(a, V) else a
        b = self.materialise(b) if not isinstance(b, V) else b
        if a.ty == b.ty:
            return a, b
        for target in (a.ty, b.ty, ("opt", a.ty), ("opt", b.ty)):
            try:
                return self.coerce(a, target, node), self.coerce(b, target, node)
            except Untranslatable:
                continue
        self.fail(node, f"branches have incompatible types {fmt_ty(a.ty)} / {fmt_ty(b.ty)}")

    def sub_ex(self, node, env, what: str):
        """an operand that is evaluated conditionally: it must not need guards / binds"""
        self.pre_stack.append([])
        try:
            v = self.ex(node, env)
            if self.pre:
                self.fail(node, f"operation that can raise inside a {what} (hoist it into a statement)")
        finally:
            self.pre_stack.pop()
        return v

    def ex_GeneratorExp(self, node, env):
        if self.list_source(node, env) is not None:
            return self.list_comp(node, env)
        return Tup(self.unroll(node, env))

    # -- comprehensions over sequences of unknown length (modelled as `List`): map / mapM with a lambda
    def list_source(self, node, env):
        """-> (lean list term, element value builder) if the single generator iterates over list-typed operands"""
        if len(node.generators) != 1 or node.generators[0].ifs or node.generators[0].is_async:
            return None
        it = node.generators[0].iter
        ops = it.args if (isinstance(it, ast.Call) and isinstance(it.func, ast.Name) and it.func.id == "zip"
                          and not it.keywords and "zip" not in env) else None
        probe = ops if ops is not None else [it]
        for o in probe:
            if not (isinstance(o, ast.Name) and isinstance(env.get(o.id), V) and env[o.id].ty[0] == "list"):
                if ops is None and isinstance(o, ast.Call) and _callname(o) not in ("range", "zip", "map", "enumerate"):
                    continue  # a call of a translated function: decided after evaluation
                return None
        return (ops is not None)

    def list_operand(self, node, env):
        """evaluate the iterable of a comprehension -> (lean term of the list, value of one element given binder `p`)"""
        g = node.generators[0]
        it = g.iter
        if isinstance(it, ast.Call) and isinstance(it.func, ast.Name) and it.func.id == "zip" and "zip" not in env:
            vs = [self.ex(a, env) for a in it.args]
            if len(vs) != 2 or not all(isinstance(v, V) and v.ty[0] == "list" for v in vs):
                self.fail(node, "zip over sequences of unknown length is translated for exactly two lists")
            lean = f"(List.zip {paren(vs[0].lean)} {paren(vs[1].lean)})"
            p = self.fresh("p")
            elem = Tup([V(f"{p}.1", vs[0].ty[1]), V(f"{p}.2", vs[1].ty[1])])
            return lean, p, elem
        v = self.ex(it, env)
        if not (isinstance(v, V) and v.ty[0] == "list"):
            return None
        p = self.fresh("p")
        return v.lean, p, V(p, v.ty[1])

    def list_comp(self, node, env, as_pred: Optional[str] = None):
        src = self.list_operand(node, env)
        if src is None:
            return Tup(self.unroll(node, env))
        lean, p, elem = src
        env2 = dict(env)
        self.bind_target(node.generators[0].target, elem, env2, node)
        self.pre_stack.append([])
        try:
            if as_pred:
                body = V(f"decide ({self.prop(node.elt, env2)})", BOOL)
            else:
                body = self.ex(node.elt, env2)
                body = self.materialise(body) if not isinstance(body, V) else body
            pre = self.pre
        finally:
            self.pre_stack.pop()
        if as_pred:
            if pre:
                self.fail(node, "operation that can raise inside all() / any()")
            return V(f"(List.{as_pred} {paren(lean)} (fun {p} => {body.lean}))", BOOL)
        if pre:
            # an element can raise: sequence left to right, first error wins (`List.mapM` in `Except`)
            saved, self.res = self.res, True
            if len(pre) == 1 and pre[0][0] == "bind" and pre[0][1] == body.lean:
                fn = pre[0][2]  # the element is the result of one raising call: pass it through as it is
                self.raised = True
            else:
                fn = self.wrap_pre(pre, f"(.ok {paren(body.lean)})")
            self.res = saved
            tmp = self.fresh("xs")
            one = " ".join(fn.split())
            self.pre.append(("bind", tmp, f"List.mapM (fun {p} => ({one} : Res {self.ctx.lean_type(body.ty)})) {paren(lean)}"))
            return V(tmp, ("list", body.ty))
        return V(f"(List.map (fun {p} => {body.lean}) {paren(lean)})", ("list", body.ty))

    def call_all(self, node, env):
        return self.allany(node, env, "all")

    def call_any(self, node, env):
        return self.allany(node, env, "any")

    def allany(self, node, env, which):
        if len(node.args) != 1 or not isinstance(node.args[0], (ast.GeneratorExp, ast.ListComp)):
            self.fail(node, f"{which}() of something other than a comprehension")
        g = node.args[0]
        if self.list_source(g, env) is not None:
            v = self.list_comp(g, env, as_pred=which)
            if isinstance(v, V):
                return v
        items = self.unroll(g, env)
        props = []
        for i in items:
            if not (isinstance(i, V) and i.ty == BOOL):
                self.fail(node, f"{which}() over non-boolean elements")
            props.append(f"({i.lean} = true)")
        sym = " ∧ " if which == "all" else " ∨ "
        base = "True" if which == "all" else "False"
        return V(f"decide ({'(' + sym.join(props) + ')' if props else base})", BOOL)

    ex_ListComp = ex_GeneratorExp

    def unroll(self, node, env) -> List[Any]:
        if len(node.generators) != 1 or node.generators[0].ifs or node.generators[0].is_async:
            self.fail(node, "comprehension with several 'for' clauses or a filter")
        g = node.generators[0]
        rows = self.iter_rows(g.iter, env)
        out = []
        for row in rows:
            env2 = dict(env)
            self.bind_target(g.target, row, env2, node)
            out.append(self.ex(node.elt, env2))
        return out

    def iter_rows(self, it, env) -> List[Any]:
        """the elements of a fixed-length iterable, known at translation time"""
        if isinstance(it, ast.Call) and isinstance(it.func, ast.Name) and it.func.id == "zip" and not it.keywords:
            cols = [self.iter_rows(a, env) for a in it.args]
            n = min(len(c) for c in cols)
            return [Tup([c[i] for c in cols]) for i in range(n)]
        if isinstance(it, ast.Call) and isinstance(it.func, ast.Name) and it.func.id == "range" and not it.keywords \
                and "range" not in env:
            bounds = [self.ex(a, env) for a in it.args]
            if not all(isinstance(b, V) and b.lit is not None and b.ty == INT for b in bounds) or len(bounds) not in (1, 2):
                self.fail(it, "range() with bounds that are not literal integers")
            lo, hi = (0, int(bounds[0].lit)) if len(bounds) == 1 else (int(bounds[0].lit), int(bounds[1].lit))
            return [V(f"({i} : Int)", INT, Fraction(i)) for i in range(lo, hi)]
        v = self.ex(it, env)
        if isinstance(v, Tup):
            return v.items
        if isinstance(v, V) and v.ty[0] == "tuple":
            return self.tuple_components(v)
        self.fail(it, f"iteration over a value of type {fmt_ty(v.ty)} whose length is not fixed")

    def call_map(self, node, env):
        if len(node.args) != 2 or not isinstance(node.args[0], ast.Name):
            self.fail(node, "map() other than map(function_name, iterable)")
        rows = self.iter_rows(node.args[1], env)
        out = []
        for i, row in enumerate(rows):
            key = f"__map_arg_{id(node)}_{i}"
            env2 = dict(env)
            env2[key] = row
            call = ast.Call(func=node.args[0], args=[ast.Name(id=key, ctx=ast.Load())], keywords=[], lineno=node.lineno)
            out.append(self.ex(call, env2))
        return Tup(out)

    def bind_target(self, target, value, env, node):
        if isinstance(target, ast.Name):
            env[target.id] = value
            return
        if isinstance(target, (ast.Tuple, ast.List)):
            comps = self.tuple_components(value)
            if len(comps) != len(target.elts):
                self.fail(node, "unpacking length mismatch")
            for t, c in zip(target.elts, comps):
                self.bind_target(t, c, env, node)
            return
        self.fail(node, "unsupported assignment target")

    def ex_Call(self, node, env):
        fn = node.func
        name = None
        if isinstance(fn, ast.Name):
            name = fn.id
        elif isinstance(fn, ast.Attribute) and isinstance(fn.value, ast.Name) and fn.value.id in ("math", "np", "numpy"):
            name = fn.attr
        if name is not None and name not in env:
            if name in self.ctx.spec.get("transparent", {}) and len(node.args) == 1 and not node.keywords:
                # a normaliser that is the identity on the modelled representation (declared in the manifest,
                # exercised by the self-check through the real function)
                return self.ex(node.args[0], env)
            if name in XY_CTORS and name not in self.ctx.funcs and not node.keywords and len(node.args) in (1, 2):
                return self.xy_ctor(name, [self.ex(a, env) for a in node.args], node)
            if name in ("Shape2d", "Index2d") and not node.args and {k.arg for k in node.keywords} == {"x", "y"}:
                kw = {k.arg: self.ex(k.value, env) for k in node.keywords}
                return XYv(kw["x"], kw["y"], name == "Shape2d")
            b = getattr(self, "call_" + name, None)
            if b is not None and name not in self.ctx.funcs:
                if node.keywords:
                    self.fail(node, f"keyword arguments to builtin '{name}'")
                return b(node, env)
            if name in self.ctx.funcs:
                return self.call_known(self.ctx.funcs[name], node.args, node.keywords, env, node, None)
            ctor = f"{name}.__init__"
            if ctor in self.ctx.funcs:
                return self.call_known(self.ctx.funcs[ctor], node.args, node.keywords, env, node, None)
            for tname, spec in self.ctx.named.items():
                if spec["kind"] == "struct" and spec.get("pyclass") == name and "ctor" in spec:
                    # a constructor that only stores its arguments (declared in the manifest, exercised by the self-check)
                    names = [c if isinstance(c, str) else c[0] for c in spec["ctor"]]
                    fields: Dict[str, Any] = {}
                    if len(node.args) > len(names):
                        self.fail(node, f"too many arguments for {name}()")
                    for n, a in zip(names, node.args):
                        fields[n] = self.ex(a, env)
                    for kw in node.keywords:
                        if kw.arg not in names or kw.arg in fields:
                            self.fail(node, f"unsupported keyword argument for {name}()")
                        fields[kw.arg] = self.ex(kw.value, env)
                    for c in spec["ctor"]:
                        if not isinstance(c, str) and c[0] not in fields:
                            fields[c[0]] = self.ex(ast.Constant(value=c[1]), env)
                    return Rec(("struct", tname), fields)
        if isinstance(fn, ast.Attribute) and fn.attr == "map" and len(node.args) == 1 and not node.keywords \
                and not (isinstance(fn.value, ast.Name) and fn.value.id not in env):
            obj = self.ex(fn.value, env)
            xy = self.as_xy(obj)
            if xy is not None:
                return self.xy_map(xy, node.args[0], env, node)
        if isinstance(fn, ast.Attribute):
            # method call  obj.method(...)  /  Class.staticmethod(...)
            if isinstance(fn.value, ast.Name) and fn.value.id not in env:
                q = f"{fn.value.id}.{fn.attr}"
                if q in self.ctx.funcs:
                    return self.call_known(self.ctx.funcs[q], node.args, node.keywords, env, node, None)
            else:
                obj = self.ex(fn.value, env)
                if isinstance(obj, (V, Rec)) and obj.ty[0] == "struct":
                    q = f"{self.ctx.named[obj.ty[1]].get('pyclass', obj.ty[1])}.{fn.attr}"
                    if q in self.ctx.funcs:
                        return self.call_known(self.ctx.funcs[q], node.args, node.keywords, env, node, obj)
        if name is not None and name not in env:
            v = self.auto_helper(name, node, env)
            if v is not None:
                return v
        self.fail(node, f"call to a function that is not translated: '{ast.unparse(fn)}'")

    def auto_helper(self, name: str, node, env):
        """a module-level function of the same file that the manifest does not list (a helper that a rewrite extracted
        or renamed): translated on the fly at the types of this call, result type inferred, tagged `@[gen_helpers]`"""
        path = repo_dir() / self.info.entry["module"]
        if path not in self.ctx.src_cache:
            return None
        _, tree = self.ctx.src_cache[path]
        fdef = None
        for n in tree.body:
            if isinstance(n, ast.FunctionDef) and n.name == name:
                fdef = n
        if fdef is None or node.keywords or any(isinstance(a, ast.Starred) for a in node.args):
            return None
        formal = [a.arg for a in fdef.args.args]
        if len(node.args) > len(formal):
            return None
        vals = [self.ex(a, env) for a in node.args]
        mats = [self.materialise(v) if not isinstance(v, V) else v for v in vals]
        if any(m.ty[0] == "pslice" for m in mats):
            return None
        key = (self.info.entry["module"], name, tuple(m.ty for m in mats))
        if key in self.ctx.auto_busy:
            self.fail(node, f"recursive helper '{name}'")
        if key not in self.ctx.auto:
            k = sum(1 for kk in self.ctx.auto if kk[1] == name)
            lean = "aux_" + (name.lstrip("_") or "f") + (f"_{k}" if k else "")
            entry = {"module": self.info.entry["module"], "py": name, "lean": lean, "helper": True, "selfcheck": False,
                     "params": [[formal[i], fmt_ty(m.ty)] for i, m in enumerate(mats)], "ret": None, "tie": None}
            info = FnInfo(entry, self.ctx)
            self.ctx.auto_busy.add(key)
            try:
                translate_function(self.ctx, info, self.ctx.src_cache)
            finally:
                self.ctx.auto_busy.discard(key)
            self.ctx.auto[key] = info
            self.ctx.auto_new.append(info)
        callee = self.ctx.auto[key]
        call = f"{callee.lean} " + " ".join(paren(m.lean) for m in mats)
        if callee.res:
            tmp = self.fresh("r")
            self.pre.append(("bind", tmp, call))
            return V(tmp, callee.ret)
        return V(f"({call})", callee.ret)

    def xy_ctor(self, name: str, vals, node):
        order, shape = XY_CTORS[name]
        if len(vals) == 2:
            a, b = vals
        else:
            xy = self.as_xy(vals[0])
            if xy is not None:
                return XYv(xy.x, xy.y, shape or xy.shape)
            comps = self.tuple_components(vals[0])
            if len(comps) != 2:
                self.fail(node, f"{name}() of something that is not a pair")
            a, b = comps
        x, y = (a, b) if order == "xy" else (b, a)
        if not all(isinstance(v, V) and v.ty in (INT, FLOAT) for v in (x, y)):
            self.fail(node, f"{name}() of non-numbers")
        return XYv(x, y, shape)

    def xy_map(self, xy: XYv, f, env, node):
        """`XY.map(op)` = `xy_(op(self.x), op(self.y))`: x first"""
        out = []
        for comp in (xy.x, xy.y):
            if isinstance(f, ast.Lambda):
                a = f.args
                if len(a.args) != 1 or a.vararg or a.kwarg or a.kwonlyargs or a.defaults:
                    self.fail(node, "lambda with other than one plain parameter")
                env2 = dict(env)
                env2[a.args[0].arg] = comp
                out.append(self.ex(f.body, env2))
            elif isinstance(f, ast.Name):
                key = self.fresh("maparg")
                env2 = dict(env)
                env2[key] = comp
                out.append(self.ex(ast.Call(func=f, args=[ast.Name(id=key, ctx=ast.Load())], keywords=[], lineno=node.lineno), env2))
            else:
                self.fail(node, "XY.map() of something other than a function name or a lambda")
        return XYv(out[0], out[1], xy.shape)

    def call_known(self, callee: FnInfo, args, keywords, env, node, selfobj):
        if callee.error:
            self.fail(node, f"callee '{callee.py}' could not be translated")
        if not callee.text:
            self.fail(node, f"callee '{callee.py}' must be listed before its callers in the manifest")
        own = list(callee.own_args)
        bound: Dict[str, Any] = {}
        if selfobj is not None:
            bound[own[0]] = selfobj
            own = own[1:]
        elif callee.is_ctor:
            own = own[1:]
        if len(args) > len(own):
            self.fail(node, f"too many arguments for '{callee.py}'")
        for n, a in zip(own, args):
            if isinstance(a, ast.Starred):
                self.fail(node, "starred argument")
            bound[n] = self.ex(a, env)
        for kw in keywords:
            if kw.arg is None or kw.arg not in own or kw.arg in bound:
                self.fail(node, f"unsupported keyword argument for '{callee.py}'")
            bound[kw.arg] = self.ex(kw.value, env)
        actual = []
        for pn, pt in callee.params:
            if pn in bound:
                actual.append(self.coerce(bound[pn], pt, node).lean)
            elif pn in callee.defaults:
                actual.append(self.coerce(self.ex(callee.defaults[pn], {}), pt, node).lean)
            elif pn in env and pn not in callee.own_args:
                actual.append(self.coerce(env[pn], pt, node).lean)  # closure variable of a nested function
            else:
                self.fail(node, f"argument '{pn}' of '{callee.py}' is missing")
        call = f"{callee.lean} " + " ".join(paren(a) for a in actual)
        if callee.res:
            tmp = self.fresh("r")
            self.pre.append(("bind", tmp, call))
            return V(tmp, callee.ret)
        return V(f"({call})", callee.ret)

    # builtins ------------------------------------------------------------------------------------
    def args1(self, node, env, n=1):
        if len(node.args) != n:
            self.fail(node, f"'{ast.unparse(node.func)}' with {len(node.args)} arguments")
        return [self.ex(a, env) for a in node.args]

    def call_int(self, node, env):
        # int(ceil(log2(x))) on an integer: exact value
        a0 = node.args[0] if len(node.args) == 1 else None
        if isinstance(a0, ast.Call) and _callname(a0) == "ceil" and len(a0.args) == 1:
            inner = a0.args[0]
            if isinstance(inner, ast.Call) and _callname(inner) == "log2":
                return self.call_ceil(a0, env)
        (x,) = self.args1(node, env)
        if x.ty == INT:
            return x
        if x.ty == FLOAT:
            return V(f"(Py.trunc {paren(x.lean)})", INT)
        if x.ty == BOOL:
            return V(f"(if {x.lean} = true then (1 : Int) else 0)", INT)
        self.fail(node, f"int() of {fmt_ty(x.ty)}")

    def call_float(self, node, env):
        (x,) = self.args1(node, env)
        return self.coerce(x, FLOAT, node)

    def call_floor(self, node, env):
        (x,) = self.args1(node, env)
        if x.ty == INT:
            return x
        if x.ty == FLOAT:
            return V(f"(Rat.floor {paren(x.lean)})", INT)
        self.fail(node, f"floor() of {fmt_ty(x.ty)}")

    def call_ceil(self, node, env):
        a0 = node.args[0] if len(node.args) == 1 else None
        if isinstance(a0, ast.Call) and _callname(a0) == "log2" and len(a0.args) == 1:
            x = self.ex(a0.args[0], env)
            if isinstance(x, V) and x.ty == INT:
                # log2 raises ValueError for x <= 0
                self.pre.append(("guard", f"{x.lean} ≤ (0 : Int)", "valueError"))
                return V(f"(Py.ceilLog2 {paren(x.lean)})", INT)
            self.fail(node, "ceil(log2(x)) is only translated for an integer x")
        (x,) = self.args1(node, env)
        if x.ty == INT:
            return x
        if x.ty == FLOAT:
            return V(f"(Rat.ceil {paren(x.lean)})", INT)
        self.fail(node, f"ceil() of {fmt_ty(x.ty)}")

    def call_round(self, node, env):
        (x,) = self.args1(node, env)
        if x.ty == INT:
            return x
        if x.ty == FLOAT:
            return V(f"(Py.roundHalfEven {paren(x.lean)})", INT)
        self.fail(node, f"round() of {fmt_ty(x.ty)}")

    def call_abs(self, node, env):
        (x,) = self.args1(node, env)
        if x.ty == INT:
            return V(f"(Py.absI {paren(x.lean)})", INT)
        if x.ty == FLOAT:
            return V(f"(Py.absR {paren(x.lean)})", FLOAT)
        self.fail(node, f"abs() of {fmt_ty(x.ty)}")

    def call_isfinite(self, node, env):
        (x,) = self.args1(node, env)
        if x.ty in (INT, FLOAT):
            return V("true", BOOL)  # floats are modelled by rationals: every modelled value is finite
        self.fail(node, f"isfinite() of {fmt_ty(x.ty)}")

    def call_fmod(self, node, env):
        a, b = self.args1(node, env, 2)
        a = self.coerce(a, FLOAT, node)
        b = self.coerce(b, FLOAT, node)
        if b.lit is None or b.lit == 0:
            self.pre.append(("guard", f"{b.lean} = (0 : Rat)", "valueError"))
        return V(f"(Py.fmod {paren(a.lean)} {paren(b.lean)})", FLOAT)

    def minmax(self, node, env, f):
        if len(node.args) < 2:
            self.fail(node, f"{f}() of an iterable")
        xs = [self.ex(a, env) for a in node.args]
        acc = xs[0]
        for x in xs[1:]:
            a, b, ty = self.num2(acc, x, node)
            acc = V(f"({f} {paren(a.lean)} {paren(b.lean)})", ty)
        return acc

    def call_max(self, node, env):
        return self.minmax(node, env, "max")

    def call_min(self, node, env):
        return self.minmax(node, env, "min")

    def call_slice(self, node, env):
        xs = [self.ex(a, env) for a in node.args]
        if len(xs) == 3:
            if not (isinstance(xs[2], V) and xs[2].ty == NONE):
                self.fail(node, "slice with a step that is not None")
            xs = xs[:2]
        if len(xs) != 2:
            self.fail(node, "slice() needs start and stop")
        for name, spec in self.ctx.named.items():
            if spec["kind"] == "struct" and spec.get("pyclass") == "slice":
                if all(isinstance(x, V) and x.ty == INT for x in xs):
                    return V(f"(⟨{xs[0].lean}, {xs[1].lean}⟩ : {spec['lean']})", ("struct", name))
        for name, spec in self.ctx.named.items():
            if spec["kind"] == "intorslice":
                return Rec(("pslice", name), {"start": xs[0], "stop": xs[1], "step": V("()", NONE)})
        self.fail(node, "slice(): no slice type declared for this property")

    def call_tuple(self, node, env):
        (x,) = self.args1(node, env)
        if isinstance(x, Tup):
            return x
        if isinstance(x, V) and x.ty[0] == "list":
            return x  # a tuple of unknown length is a `List`
        if isinstance(x, V) and x.ty[0] == "tuple":
            return x
        self.fail(node, "tuple() of a value whose length is not fixed")

    call_list = call_tuple

    def call_sorted(self, node, env):
        (x,) = self.args1(node, env)
        comps = self.tuple_components(x) if (isinstance(x, Tup) or (isinstance(x, V) and x.ty[0] == "tuple")) else None
        if comps is None or len(comps) != 2:
            self.fail(node, "sorted() of something other than a pair")
        a, b, ty = self.num2(comps[0], comps[1], node)
        return Tup([V(f"(min {paren(a.lean)} {paren(b.lean)})", ty), V(f"(max {paren(a.lean)} {paren(b.lean)})", ty)])

    def call_len(self, node, env):
        (x,) = self.args1(node, env)
        if isinstance(x, V) and x.ty[0] == "list":
            return V(f"(({paren(x.lean)}.length : Nat) : Int)", INT)
        if isinstance(x, Tup) or (isinstance(x, V) and x.ty[0] == "tuple"):
            n = len(self.tuple_components(x))
            return V(f"({n} : Int)", INT, Fraction(n))
        self.fail(node, f"len() of {fmt_ty(x.ty)}")

    def call_bool(self, node, env):
        return V(f"decide ({self.prop(node.args[0], env)})", BOOL)

    # -- propositions (conditions)
    def prop(self, node, env) -> str:
        if isinstance(node, ast.BoolOp):
            nar = self.narrowing(node.values[0], env)
            if nar is not None and len(node.values) >= 2:
                rest = node.values[1] if len(node.values) == 2 else ast.BoolOp(op=node.op, values=node.values[1:])
                t, f = ast.Constant(value=True), ast.Constant(value=False)
                if isinstance(node.op, ast.Or):
                    v = self.narrow_expr(nar, t, rest, env, node, as_prop=True)
                else:
                    v = self.narrow_expr(nar, rest, f, env, node, as_prop=True)
                return v
            parts = [self.prop(node.values[0], env)]
            for v in node.values[1:]:
                self.pre_stack.append([])
                try:
                    parts.append(self.prop(v, env))
                    if self.pre:
                        self.fail(v, "operation that can raise inside a short-circuit operand (hoist it into a statement)")
                finally:
                    self.pre_stack.pop()
            sym = " ∧ " if isinstance(node.op, ast.And) else " ∨ "
            return "(" + sym.join(parts) + ")"
        if isinstance(node, ast.UnaryOp) and isinstance(node.op, ast.Not):
            return f"(¬ {self.prop(node.operand, env)})"
        if isinstance(node, ast.Compare):
            return self.compare(node, env)
        if isinstance(node, ast.Constant) and isinstance(node.value, bool):
            return "True" if node.value else "False"
        v = self.ex(node, env)
        if isinstance(v, V) and v.ty == BOOL:
            if v.lean.startswith("decide (") and v.lean.endswith(")"):
                return v.lean[len("decide "):]
            return f"({v.lean} = true)"
        if isinstance(v, V) and v.ty in (INT, FLOAT):
            return f"({v.lean} ≠ 0)"
        self.fail(node, f"truth value of {fmt_ty(v.ty)}")

    def compare(self, node, env) -> str:
        operands = [node.left] + list(node.comparators)
        vals = [self.ex(o, env) for o in operands]
        parts = []
        for i, op in enumerate(node.ops):
            parts.append(self.compare1(vals[i], op, vals[i + 1], node, env))
        return parts[0] if len(parts) == 1 else "(" + " ∧ ".join(parts) + ")"

    def compare1(self, a, op, b, node, env) -> str:
        if isinstance(op, (ast.In, ast.NotIn)):
            items = b.items if isinstance(b, Tup) else None
            if items is None:
                self.fail(node, "'in' with a right-hand side that is not a literal tuple / list")
            alts = [self.compare1(a, ast.Eq(), x, node, env) for x in items]
            p = "(" + " ∨ ".join(alts) + ")" if alts else "False"
            return p if isinstance(op, ast.In) else f"(¬ {p})"
        if isinstance(op, (ast.Is, ast.IsNot)):
            if isinstance(b, V) and b.ty == NONE:
                op = ast.Eq() if isinstance(op, ast.Is) else ast.NotEq()
            else:
                self.fail(node, "'is' between objects (identity is not modelled)")
        sym = {ast.Lt: "<", ast.LtE: "≤", ast.Gt: ">", ast.GtE: "≥", ast.Eq: "=", ast.NotEq: "≠"}.get(type(op))
        if sym is None:
            self.fail(node, f"unsupported comparison {type(op).__name__}")
        if isinstance(a, V) and isinstance(b, V) and a.ty in (INT, FLOAT) and b.ty in (INT, FLOAT):
            a2, b2, _ = self.num2(a, b, node)
            return f"({a2.lean} {sym} {b2.lean})"
        if sym in ("=", "≠"):
            a = self.materialise(a) if not isinstance(a, V) else a
            b = self.materialise(b) if not isinstance(b, V) else b
            if a.ty == NONE and b.ty == NONE:
                return "True" if sym == "=" else "False"
            if a.ty[0] != "opt" and b.ty[0] != "opt" and NONE in (a.ty, b.ty):
                return "False" if sym == "=" else "True"  # a non-optional value is never None
            a2, b2 = self.join(a, b, node)
            return f"({a2.lean} {sym} {b2.lean})"
        self.fail(node, f"comparison {sym} between {fmt_ty(a.ty)} and {fmt_ty(b.ty)}")

    # -- narrowing tests:  isinstance(x, int)  /  x is None  /  x is not None  (x a name or name.attr)
    def narrowing(self, test, env) -> Optional[tuple]:
        neg = False
        while isinstance(test, ast.UnaryOp) and isinstance(test.op, ast.Not):
            neg = not neg
            test = test.operand
        if isinstance(test, ast.Call) and _callname(test) == "isinstance" and len(test.args) == 2:
            tgt, cls = test.args
            if isinstance(tgt, ast.Name) and tgt.id in env and isinstance(cls, ast.Attribute) \
                    and isinstance(cls.value, ast.Name) and cls.value.id in ("np", "numpy") \
                    and cls.attr in ("integer", "floating", "number", "generic", "ndarray", "bool_"):
                v = env[tgt.id]
                if isinstance(v, V) and v.ty in (INT, FLOAT, BOOL):
                    # the modelled value is a Python number (ints unbounded, floats exact): never a numpy scalar;
                    # fixed-width representations are outside the model (DESIGN §3.2)
                    return ("const", tgt, not neg)
            seq_cls = (isinstance(cls, ast.Name) and cls.id in ("tuple", "list", "Sequence")) or \
                (isinstance(cls, ast.Attribute) and cls.attr == "Sequence")
            if isinstance(tgt, ast.Name) and tgt.id in env and seq_cls:
                v = env[tgt.id]
                is_seq = isinstance(v, Tup) or (isinstance(v, V) and v.ty[0] in ("list", "tuple"))
                is_scalar = isinstance(v, Rec) or (isinstance(v, V) and v.ty[0] in ("int", "float", "bool", "intorslice", "struct"))
                if is_seq:
                    return ("const", tgt, neg)
                if is_scalar and not (isinstance(v, V) and v.ty[0] == "struct"):
                    return ("const", tgt, not neg)
            if isinstance(tgt, ast.Name) and tgt.id in env and isinstance(cls, ast.Name):
                v = env[tgt.id]
                if isinstance(v, V) and v.ty[0] == "intorslice":
                    if cls.id == "int":
                        return ("isint", tgt, neg)
                    if cls.id == "slice":
                        return ("isint", tgt, not neg)
                if isinstance(v, V) and v.ty[0] == "intorpair":
                    if cls.id == "int":
                        return ("isint", tgt, neg)
                    if cls.id == "tuple":
                        return ("isint", tgt, not neg)
                if isinstance(v, Tup) and cls.id == "int":
                    return ("const", tgt, not neg)
                if isinstance(v, V) and v.ty == INT and cls.id == "int":
                    return ("const", tgt, not neg)
                if isinstance(v, Rec) and v.ty[0] == "pslice" and cls.id == "int":
                    return ("const", tgt, neg)
            self.fail(test, f"isinstance test that is not translated: '{ast.unparse(test)}'")
        if isinstance(test, ast.Compare) and len(test.ops) == 1 and isinstance(test.ops[0], (ast.Is, ast.IsNot, ast.Eq, ast.NotEq)):
            l, r = test.left, test.comparators[0]
            if isinstance(r, ast.Constant) and r.value is None and isinstance(l, (ast.Name, ast.Attribute)):
                try:
                    self.pre_stack.append([])
                    v = self.ex(l, env)
                finally:
                    self.pre_stack.pop()
                if isinstance(test.ops[0], (ast.IsNot, ast.NotEq)):
                    neg = not neg
                if isinstance(v, V) and v.ty[0] == "opt":
                    return ("isnone", l, neg)
                if isinstance(v, V) and v.ty == NONE:
                    return ("const", l, neg)
                return ("const", l, not neg)  # a non-optional value is never None
        return None

    def narrow_envs(self, nar, env):
        """-> (scrutinee, [(pattern, env_if_true?)...]) as (scrut, pat_yes, env_yes, pat_no, env_no)"""
        kind, target, neg = nar
        if kind == "const":
            return None
        if kind == "isint":
            v = env[target.id]
            nm = self.ctx.named[v.ty[1]]
            if v.ty[0] == "intorpair":
                i = self.fresh(target.id)
                a = self.fresh(target.id + "_0")
                b = self.fresh(target.id + "_1")
                env_yes = dict(env)
                env_yes[target.id] = V(i, INT)
                env_no = dict(env)
                env_no[target.id] = Tup([V(a, INT), V(b, INT)])
                return v.lean, f"{nm['int_ctor']} {i}", env_yes, f"{nm['pair_ctor']} {a} {b}", env_no
            i = self.fresh(target.id)
            a = self.fresh(target.id + "_start")
            b = self.fresh(target.id + "_stop")
            env_yes = dict(env)
            env_yes[target.id] = V(i, INT)
            env_no = dict(env)
            env_no[target.id] = Rec(("pslice", v.ty[1]), {"start": V(a, ("opt", INT)), "stop": V(b, ("opt", INT)), "step": V("()", NONE)})
            return v.lean, f"{nm['int_ctor']} {i}", env_yes, f"{nm['slice_ctor']} {a} {b}", env_no
        if kind == "isnone":
            v = self.ex(target, env)
            base = target.id if isinstance(target, ast.Name) else target.attr
            x = self.fresh(base)
            env_no = dict(env)
            newv = V(x, v.ty[1])
            if isinstance(target, ast.Name):
                env_no[target.id] = newv
            else:
                # narrow a field of a symbolic record
                if not (isinstance(target.value, ast.Name) and isinstance(env.get(target.value.id), Rec)):
                    self.fail(target, "narrowing of an attribute of a non-symbolic value")
                rec = env[target.value.id]
                fields = dict(rec.fields)
                fields[target.attr] = newv
                env_no[target.value.id] = Rec(rec.ty, fields)
            env_yes = dict(env)
            if isinstance(target, ast.Name):
                env_yes[target.id] = V("()", NONE)  # known to be None on this path
            return v.lean, "none", env_yes, f"some {x}", env_no
        raise AssertionError(kind)

    def narrow_expr(self, nar, yes_node, no_node, env, node, as_prop=False):
        kind, target, neg = nar
        if neg:
            yes_node, no_node = no_node, yes_node
        if kind == "const":
            # test is statically true
            if as_prop:
                return self.prop(yes_node, env)
            return self.sub_ex(yes_node, env, "conditional expression")
        scrut, p1, e1, p2, e2 = self.narrow_envs(nar, env)
        if as_prop:
            self.pre_stack.append([])
            try:
                a = self.prop(yes_node, e1)
                b = self.prop(no_node, e2)
                if self.pre:
                    self.fail(node, "operation that can raise inside a short-circuit operand (hoist it into a statement)")
            finally:
                self.pre_stack.pop()
            return f"(match {scrut} with | {p1} => {a} | {p2} => {b})"
        a = self.sub_ex(yes_node, e1, "conditional expression")
        b = self.sub_ex(no_node, e2, "conditional expression")
        a, b = self.join(a, b, node)
        return V(f"(match {scrut} with | {p1} => {a.lean} | {p2} => {b.lean})", a.ty)

    # -- statements
    def block(self, stmts: List[ast.stmt], env) -> str:
        if not stmts:
            return self.fall_off(env)
        s, rest = stmts[0], stmts[1:]
        m = getattr(self, "st_" + type(s).__name__, None)
        if m is None:
            self.fail(s, f"unsupported statement '{type(s).__name__}'")
        return m(s, rest, env)

    def fall_off(self, env) -> str:
        if self.info.ret is None:
            self.ret_types.append(NONE)
            return "()"
        if self.info.is_ctor:
            rec = env[self.info.own_args[0]]
            return self.ok(self.materialise(rec).lean)
        if self.info.ret == NONE:
            return self.ok("()")
        raise Untranslatable(f"{self.info.py}: a path reaches the end of the function without 'return'")

    def with_pre(self, fn):
        """run fn() collecting guards/binds; returns (result, pre)"""
        self.pre_stack.append([])
        try:
            r = fn()
            pre = self.pre
        finally:
            self.pre_stack.pop()
        return r, pre

    def st_Expr(self, s, rest, env):
        if isinstance(s.value, ast.Constant) and isinstance(s.value.value, str):
            return self.block(rest, env)
        self.fail(s, "expression statement (side effects are not translated)")

    def st_Pass(self, s, rest, env):
        return self.block(rest, env)

    def st_Return(self, s, rest, env):
        if self.info.ret is None:  # inference pass of an auto helper: only the type matters
            v, _ = self.with_pre(lambda: self.ex(s.value, env) if s.value is not None else V("()", NONE))
            self.ret_types.append(v.ty)
            return "()"
        if s.value is None:
            if self.info.ret != NONE:
                self.fail(s, "bare return in a function with a value")
            return self.ok("()")
        v, pre = self.with_pre(lambda: self.coerce(self.ex(s.value, env), self.info.ret, s))
        return self.wrap_pre(pre, self.ok(v.lean))

    def bind_value(self, name: str, value, env, lets: List[tuple]):
        """bind python name to value; non-atomic Lean terms get a `let`"""
        if isinstance(value, XYv):
            env[name] = XYv(self._bind_part(name + "_x", value.x, lets), self._bind_part(name + "_y", value.y, lets), value.shape)
        elif isinstance(value, Tup):
            env[name] = Tup([self._bind_part(name, i, lets) for i in value.items])
        elif isinstance(value, Rec):
            env[name] = Rec(value.ty, {k: self._bind_part(f"{name}_{k}", f, lets) for k, f in value.fields.items()})
        else:
            env[name] = self._bind_part(name, value, lets)

    def _bind_part(self, name, value, lets):
        if isinstance(value, (Tup, Rec)):
            holder: Dict[str, Any] = {}
            self.bind_value(name, value, holder, lets)
            return holder[name]
        if _atomic(value.lean):
            return value
        x = self.fresh(name)
        lets.append(("let", x, value.lean))
        return V(x, value.ty, value.lit)

    def assign(self, target, value, env, lets, node):
        if isinstance(target, ast.Name):
            self.bind_value(target.id, value, env, lets)
            return
        if isinstance(target, (ast.Tuple, ast.List)):
            if isinstance(value, V) and not _atomic(value.lean):
                x = self.fresh("t")
                lets.append(("let", x, value.lean))
                value = V(x, value.ty)
            comps = self.tuple_components(value)
            if len(comps) != len(target.elts):
                self.fail(node, "unpacking length mismatch")
            # simultaneous assignment: all right-hand sides refer to the old bindings (fresh Lean names)
            for t, c in zip(target.elts, comps):
                self.assign(t, c, env, lets, node)
            return
        if isinstance(target, ast.Attribute) and isinstance(target.value, ast.Name) and self.info.is_ctor \
                and target.value.id == self.info.own_args[0]:
            rec = env[target.value.id]
            fields = dict(rec.fields)
            holder: Dict[str, Any] = {}
            self.bind_value(target.attr, value, holder, lets)
            fields[target.attr] = holder[target.attr]
            env[target.value.id] = Rec(rec.ty, fields)
            return
        self.fail(node, f"unsupported assignment target '{ast.unparse(target)}'")

    def st_Assign(self, s, rest, env):
        if len(s.targets) != 1:
            self.fail(s, "chained assignment")
        if isinstance(s.value, ast.IfExp) and self.needs_pre(s.value, env):
            # `x = a if c else f(..)` where a branch can raise: the same as the statement form
            mk = lambda v: ast.Assign(targets=s.targets, value=v, lineno=s.lineno)
            return self.st_If(ast.If(test=s.value.test, body=[mk(s.value.body)], orelse=[mk(s.value.orelse)], lineno=s.lineno), rest, env)
        env2 = dict(env)
        lets: List[tuple] = []

        def go():
            v = self.ex(s.value, env)
            self.assign(s.targets[0], v, env2, lets, s)

        _, pre = self.with_pre(go)
        return self.wrap_pre(pre + lets, self.block(rest, env2))

    def needs_pre(self, node, env) -> bool:
        self.pre_stack.append([])
        used = set(self.used)
        raised = self.raised
        try:
            self.ex(node, env)
            return False
        except Untranslatable as e:
            return "can raise inside" in str(e)
        finally:
            self.pre_stack.pop()
            self.used = used
            self.raised = raised

    def st_AnnAssign(self, s, rest, env):
        if s.value is None:
            return self.block(rest, env)
        return self.st_Assign(ast.Assign(targets=[s.target], value=s.value, lineno=s.lineno), rest, env)

    def st_AugAssign(self, s, rest, env):
        load = ast.Name(id=s.target.id, ctx=ast.Load()) if isinstance(s.target, ast.Name) else None
        if load is None:
            self.fail(s, "augmented assignment to a non-name")
        val = ast.BinOp(left=load, op=s.op, right=s.value, lineno=s.lineno)
        return self.st_Assign(ast.Assign(targets=[s.target], value=val, lineno=s.lineno), rest, env)

    def st_Assert(self, s, rest, env):
        return self.st_If(ast.If(test=s.test, body=[ast.Pass()], orelse=[ast.Raise(exc=ast.Name(id="AssertionError"), cause=None, lineno=s.lineno)], lineno=s.lineno), rest, env, join=True)

    def st_Raise(self, s, rest, env):
        exc = s.exc
        if isinstance(exc, ast.Call):
            exc = exc.func
        if isinstance(exc, ast.Name) and exc.id in ERR_OF_EXC:
            if not self.res:
                self.raised = True
            return self.err(ERR_OF_EXC[exc.id])
        self.fail(s, f"raise of '{ast.unparse(s.exc) if s.exc else ''}'")

    def st_If(self, s, rest, env, join=False):
        test = s.test
        # and / or with a narrowing operand: nest, so that narrowing (and raising operands) are sequenced
        if isinstance(test, ast.BoolOp) and (any(self.narrowing(v, env) is not None for v in test.values[:1]) or self.can_raise_later(test, env)):
            first = test.values[0]
            others = test.values[1] if len(test.values) == 2 else ast.BoolOp(op=test.op, values=test.values[1:])
            if isinstance(test.op, ast.And):
                inner = ast.If(test=others, body=s.body, orelse=s.orelse, lineno=s.lineno)
                return self.st_If(ast.If(test=first, body=[inner], orelse=s.orelse, lineno=s.lineno), rest, env)
            inner = ast.If(test=others, body=s.body, orelse=s.orelse, lineno=s.lineno)
            return self.st_If(ast.If(test=first, body=s.body, orelse=[inner], lineno=s.lineno), rest, env)
        body_rest = [] if terminates(s.body) else rest
        else_rest = [] if terminates(s.orelse) else rest
        nar = self.narrowing(test, env)
        if nar is not None:
            kind, target, neg = nar
            yes, no = (s.body + body_rest, s.orelse + else_rest)
            if neg:
                yes, no = no, yes
            if kind == "const":
                return self.block(yes, env)
            scrut, p1, e1, p2, e2 = self.narrow_envs(nar, env)
            a = self.block(yes, e1)
            b = self.block(no, e2)
            return f"(match {scrut} with\n| {p1} =>\n{ind(a)}\n| {p2} =>\n{ind(b)})"
        c, pre = self.with_pre(lambda: self.prop(test, env))
        a = self.block(s.body + body_rest, dict(env))
        b = self.block(s.orelse + else_rest, dict(env))
        return self.wrap_pre(pre, f"(if {c} then\n{ind(a)}\nelse\n{ind(b)})")

    def can_raise_later(self, test: ast.BoolOp, env) -> bool:
        """does an operand after the first need guards/binds? (then the test must be sequenced)"""
        for v in test.values[1:]:
            self.pre_stack.append([])
            used = set(self.used)
            try:
                try:
                    self.prop(v, env)
                    if self.pre:
                        return True
                except Untranslatable:
                    return True
            finally:
                self.pre_stack.pop()
                self.used = used
        return False

    def st_While(self, s, rest, env):
        if s.orelse:
            self.fail(s, "while ... else")
        for n in ast.walk(ast.Module(body=s.body, type_ignores=[])):
            if isinstance(n, (ast.Return, ast.Break, ast.Continue, ast.While, ast.For)):
                self.fail(n, f"'{type(n).__name__}' inside a while loop")
        fuels = self.info.entry.get("fuel", [])
        k = self.loop_count
        self.loop_count += 1
        if k >= len(fuels):
            self.fail(s, "while loop without a fuel expression in the manifest")
        assigned = []
        for n in ast.walk(ast.Module(body=s.body, type_ignores=[])):
            if isinstance(n, ast.Name) and isinstance(n.ctx, ast.Store) and n.id not in assigned:
                assigned.append(n.id)
        carried = sorted(a for a in assigned if a in env)  # fixed order: independent of statement order in the body
        read = []
        for n in ast.walk(ast.Module(body=[ast.Expr(value=s.test)] + s.body, type_ignores=[])):
            if isinstance(n, ast.Name) and isinstance(n.ctx, ast.Load) and n.id in env and n.id not in read:
                read.append(n.id)
        const = sorted(r for r in read if r not in carried)
        for nm in carried + const:
            if not isinstance(env[nm], V):
                self.fail(s, f"loop variable '{nm}' is not a plain value")
        # the auxiliary recursive function
        sub = FnTranslator(self.ctx, self.info, True)
        sub.used = set(self.used)
        lname = f"{self.info.lean}_loop{k}"
        cenv = {}
        binders = []
        for nm in const + carried:
            x = sub.fresh(nm)
            cenv[nm] = V(x, env[nm].ty)
            binders.append(f"({x} : {self.ctx.lean_type(env[nm].ty)})")
        state_ty = ("tuple", tuple(env[c].ty for c in carried)) if len(carried) != 1 else env[carried[0]].ty
        const_args = " ".join(cenv[c].lean for c in const)

        def state_term(e):
            vals = [sub.coerce(e[c], env[c].ty, s).lean for c in carried]
            return vals[0] if len(vals) == 1 else "(" + ", ".join(vals) + ")"

        # body: translate statements then recurse
        sub.recur = lambda e: f"{lname} fuel {const_args} " + " ".join(paren(sub.coerce(e[c], env[c].ty, s).lean) for c in carried)
        sub.fall_off = lambda e: sub.recur(e)  # type: ignore
        cond, pre = sub.with_pre(lambda: sub.prop(s.test, cenv))
        body = sub.block(list(s.body), dict(cenv))
        step = sub.wrap_pre(pre, f"(if {cond} then\n{ind(body)}\nelse\n  (.ok {paren(state_term(cenv))}))")
        zero_pat = ", ".join("_" for _ in const + carried)
        succ_pat = ", ".join(cenv[c].lean for c in const + carried)
        aux = (
            f"/-- the `while` loop #{k} of `{self.info.py}`: one iteration per unit of fuel -/\n"
            f"def {lname} : Nat → " + " → ".join(self.ctx.lean_type(env[c].ty) for c in const + carried)
            + f" → Res {self.ctx.lean_type(state_ty)}\n"
            f"  | 0, {zero_pat} => .error .notImplemented\n"
            f"  | fuel + 1, {succ_pat} =>\n{ind(step, 4)}\n"
        )
        self.aux.extend(sub.aux)
        self.aux.append(aux)
        self.used |= sub.used
        self.raised = True
        # the call
        fuel_expr = fuels[k]
        fenv = {p: env[p].lean for p, _ in self.info.params if p in env and isinstance(env[p], V)}
        try:
            fuel_lean = fuel_expr.format(**fenv)
        except KeyError as e:
            self.fail(s, f"fuel expression refers to unknown parameter {e}")
        call = f"{lname} ({fuel_lean}) " + " ".join(paren(env[c].lean) for c in const + carried)
        tmp = self.fresh("st")
        env2 = dict(env)
        lets: List[tuple] = []
        if len(carried) == 1:
            env2[carried[0]] = V(tmp, env[carried[0]].ty)
        else:
            comps = self.tuple_components(V(tmp, state_ty))
            for c, v in zip(carried, comps):
                env2[c] = v
        return self.wrap_pre([("bind", tmp, call)], self.block(rest, env2))

    def st_For(self, s, rest, env):
        if s.orelse:
            self.fail(s, "for ... else")
        for n in ast.walk(ast.Module(body=s.body, type_ignores=[])):
            if isinstance(n, (ast.Break, ast.Continue)):
                self.fail(n, f"'{type(n).__name__}' inside a for loop")
        rows = self.iter_rows(s.iter, env)
        # unrolled: each iteration is `target = row; body`
        stmts: List[ast.stmt] = []
        self._rows = getattr(self, "_rows", {})
        for i, row in enumerate(rows):
            key = f"__row_{id(s)}_{i}"
            self._rows[key] = row
            stmts.append(ast.Assign(targets=[s.target], value=ast.Name(id=key, ctx=ast.Load()), lineno=s.lineno))
            stmts.extend(s.body)
        env2 = dict(env)
        env2.update({k: v for k, v in self._rows.items()})
        return self.block(stmts + rest, env2)

    def st_FunctionDef(self, s, rest, env):
        if f"{self.info.py}.{s.name}" in self.ctx.funcs:
            return self.block(rest, env)  # a nested helper listed in the manifest: translated on its own, called by name
        self.fail(s, "nested function definition (list it in the manifest as outer.inner and call it)")


def terminates(stmts: List[ast.stmt]) -> bool:
    if not stmts:
        return False
    last = stmts[-1]
    if isinstance(last, (ast.Return, ast.Raise)):
        return True
    if isinstance(last, ast.If):
        return terminates(last.body) and terminates(last.orelse)
    return False


def _callname(c: ast.Call) -> Optional[str]:
    if isinstance(c.func, ast.Name):
        return c.func.id
    if isinstance(c.func, ast.Attribute):
        return c.func.attr
    return None


def _atomic(s: str) -> bool:
    return bool(s) and (all(c.isalnum() or c in "_.'" for c in s) or s == "()" or (s.startswith("(") and s.endswith(": Int)") and s.count("(") == 1) or (s.startswith("(") and s.endswith(": Rat)") and s.count("(") == 1))


def rat_lit(f: Fraction) -> str:
    if f.denominator == 1:
        return str(f.numerator)
    return f"{f.numerator} / {f.denominator}"


def fmt_ty(t) -> str:
    if t[0] in ("int", "float", "bool", "none", "nat"):
        return t[0]
    if t[0] == "xy":
        return f"xy[{fmt_ty(t[1])}]"
    if t[0] == "shape2d":
        return "shape2d"
    if t[0] == "opt":
        return f"opt[{fmt_ty(t[1])}]"
    if t[0] == "list":
        return f"list[{fmt_ty(t[1])}]"
    if t[0] == "tuple":
        return "tuple[" + ",".join(fmt_ty(x) for x in t[1]) + "]"
    return str(t[1])


# ----------------------------------------------------------------------------------------------- driver
def find_function(tree: ast.Module, qual: str) -> Optional[ast.FunctionDef]:
    parts = qual.split(".")
    body = tree.body
    node = None
    for p in parts:
        node = None
        for n in body:
            if isinstance(n, (ast.FunctionDef, ast.ClassDef)) and n.name == p:
                node = n  # the last definition wins, as in Python (skips @overload stubs)
        if node is None:
            return None
        body = node.body
    return node if isinstance(node, ast.FunctionDef) else None


def translate_function(ctx: Ctx, info: FnInfo, src_cache: Dict[Path, Tuple[str, ast.Module]]):
    path = repo_dir() / info.entry["module"]
    if path not in src_cache:
        text = path.read_text()
        src_cache[path] = (text, ast.parse(text))
    text, tree = src_cache[path]
    node = find_function(tree, info.py)
    if node is None:
        if info.entry.get("optional"):
            info.absent = True
            return
        raise Untranslatable(f"{info.py}: not found in {info.entry['module']}")
    info.node = node
    info.src_hash = hashlib.sha256(ast.get_source_segment(text, node).encode()).hexdigest()[:16]
    a = node.args
    if a.vararg or a.kwarg or a.posonlyargs:
        raise Untranslatable(f"{info.py}: *args / **kwargs / positional-only parameters")
    allargs = list(a.args) + list(a.kwonlyargs)
    info.own_args = [x.arg for x in allargs]
    defaults = dict(zip([x.arg for x in a.args][len(a.args) - len(a.defaults):], a.defaults))
    for x, d in zip(a.kwonlyargs, a.kw_defaults):
        if d is not None:
            defaults[x.arg] = d
    info.defaults = defaults
    info.is_ctor = node.name == "__init__"
    decos = [ast.unparse(d) for d in node.decorator_list]
    for d in decos:
        if d not in ("staticmethod", "property"):
            raise Untranslatable(f"{info.py}: decorator @{d}")
    # parameters: by name; a parameter that was only renamed is matched by position; a new optional parameter
    # (not in the manifest, has a default) is fixed at its default value — the function "as called by the manifest"
    info.params = [(n, parse_type(t, ctx.named)) for n, t in info.entry["params"]]
    own_pos = info.own_args[1:] if info.is_ctor else list(info.own_args)
    extra_defaults: Dict[str, ast.expr] = {}
    for i, x in enumerate(own_pos):
        declared = [n for n, _ in info.params]
        if x in declared:
            continue
        if i < len(info.params) and info.params[i][0] not in own_pos and x not in defaults:
            info.params[i] = (x, info.params[i][1])  # renamed parameter
        elif x in defaults:
            extra_defaults[x] = defaults[x]
        elif i < len(info.params) and info.params[i][0] not in own_pos:
            info.params[i] = (x, info.params[i][1])
        else:
            raise Untranslatable(f"{info.py}: parameter '{x}' has no type in the manifest")

    def run(res_mode: bool):
        tr = FnTranslator(ctx, info, res_mode)
        env: Dict[str, Any] = {}
        binders = []
        for n, t in info.params:
            x = tr.fresh(n)
            env[n] = V(x, t)
            binders.append(f"({x} : {ctx.lean_type(t)})")
        if info.is_ctor:
            env[info.own_args[0]] = Rec(info.ret, {})
        for x, d in extra_defaults.items():
            env[x] = tr.ex(d, {})
        body = tr.block(list(node.body), env)
        return tr, binders, body

    if info.ret is None:
        tr0, _, _ = run(False)
        info.ret = join_types(tr0.ret_types, info.py)
    tr, binders, body = run(False)
    if tr.raised:
        tr, binders, body = run(True)
        info.res = True
    rt = ctx.lean_type(info.ret)
    rt = f"Res {rt}" if info.res else rt
    doc = f"/-- `{info.entry['module']}` : `{info.py}` (source sha256 {info.src_hash}) -/"
    if info.entry.get("helper"):
        doc += "\n@[gen_helpers]"
    info.text = "".join(a + "\n" for a in tr.aux) + f"{doc}\ndef {info.lean} {' '.join(binders)} : {rt} :=\n{ind(body)}\n"


def join_types(ts: List[tuple], who: str) -> tuple:
    if not ts:
        raise Untranslatable(f"{who}: no return value to infer the result type from")
    cur = ts[0]
    for t in ts[1:]:
        if t == cur:
            continue
        if {t, cur} == {INT, FLOAT}:
            cur = FLOAT
        elif t == NONE and cur[0] != "opt":
            cur = ("opt", cur)
        elif cur == NONE:
            cur = t if t[0] == "opt" else ("opt", t)
        elif cur[0] == "opt" and (t == cur[1] or t == NONE):
            pass
        elif t[0] == "tuple" and cur[0] == "tuple" and len(t[1]) == len(cur[1]):
            cur = ("tuple", tuple(join_types([a, b], who) for a, b in zip(cur[1], t[1])))
        else:
            raise Untranslatable(f"{who}: return values of incompatible types {fmt_ty(cur)} / {fmt_ty(t)}")
    return cur


def generate(pid: str, targets: Dict[str, Any]) -> Tuple[str, List[FnInfo]]:
    spec = targets[pid]
    ctx = Ctx(pid, spec)
    infos: List[FnInfo] = []
    cache = ctx.src_cache
    order: List[FnInfo] = []   # emission order: helpers translated on the fly come before their first caller
    for entry in spec["functions"]:
        info = FnInfo(entry, ctx)
        infos.append(info)
        try:
            translate_function(ctx, info, cache)
        except Untranslatable as e:
            info.error = str(e)
        except (SyntaxError, OSError) as e:
            info.error = f"{entry['py']}: {type(e).__name__}: {e}"
        order.extend(ctx.auto_new if not info.error else [])
        if info.error:
            for a in ctx.auto_new:  # helpers of a function that failed are dropped again
                ctx.auto = {k: v for k, v in ctx.auto.items() if v is not a}
        ctx.auto_new = []
        order.append(info)
        if info.absent:
            continue
        ctx.funcs[info.py] = info
        ctx.funcs.setdefault(info.py.split(".")[-1], info)
    out = [
        "/-",
        f"GENERATED by tools/py2lean.py from the Python source of odc-geo — do not edit.  Property {pid}.",
        "Regenerated on every run of check.py (harness/gentie.py); the theorems `tie_*` of",
        f"OdcGeo/Props/Gen{pid}.lean prove each definition equal to the hand model for all inputs.",
        "-/",
        "import OdcGeo.Gen.PyPrelude",
    ]
    out += [f"import {m}" for m in spec.get("imports", [])]
    out += ["set_option linter.unusedVariables false", f"namespace OdcGeo.Gen.{pid}", "open OdcGeo OdcGeo.Gen", ""]
    for info in order:
        if info.absent:
            out.append(f"-- ABSENT {info.py}: optional helper, not in the source any more\n")
            continue
        if info.error:
            out.append(f"-- UNTRANSLATABLE {info.py}: {info.error}")
            # keep the file ill-formed for the tie theorems of this function (they must not build), well-formed for the rest
            out.append("")
            continue
        out.append(info.text)
    out += [driver_text(ctx, infos), f"end OdcGeo.Gen.{pid}", ""]
    return "\n".join(out), infos


def driver_text(ctx: Ctx, infos: List[FnInfo]) -> str:
    """line protocol entry point used by the translator's differential self-check"""
    lines = ["/-- self-check entry point: `<lean name> <argument tokens…>` → result tokens -/",
             "def selfCheck (toks : List String) : Option String :=", "  match toks with"]
    inst = []
    for name, spec in ctx.named.items():
        if spec["kind"] == "struct":
            fs = ctx.struct_fields(("struct", name))
            T = spec["lean"]
            takes = "\n".join(f"    let (x{i}, r) ← (Py.PyArg.take r : Option ({ctx.lean_type(t)} × List String))" for i, (_, t) in enumerate(fs))
            ctor = ", ".join(f"x{i}" for i in range(len(fs)))
            inst.append(f"instance : Py.PyArg {T} where\n  take r := do\n{takes}\n    return ((⟨{ctor}⟩ : {T}), r)")
            outs = ' ++ " " ++ '.join(f"Py.PyOut.out v.{spec.get('lean_fields', {}).get(n, n)}" for n, _ in fs)
            inst.append(f"instance : Py.PyOut {T} where\n  out v := {outs}")
        elif spec["kind"] == "intorslice":
            T = spec["lean"]
            inst.append(
                f"instance : Py.PyArg {T} where\n  take\n"
                f"    | \"i\" :: r => (Py.PyArg.take r : Option (Int × List String)).map fun p => ({T}{spec['int_ctor']} p.1, p.2)\n"
                f"    | \"s\" :: r => do\n"
                f"      let (a, r) ← (Py.PyArg.take r : Option (Option Int × List String))\n"
                f"      let (b, r) ← (Py.PyArg.take r : Option (Option Int × List String))\n"
                f"      return ({T}{spec['slice_ctor']} a b, r)\n"
                f"    | _ => none")
    for info in infos:
        if info.error or info.absent or info.entry.get("selfcheck") is False:
            continue
        takes = []
        for i, (_, t) in enumerate(info.params):
            takes.append(f"    let (a{i}, r) ← (Py.PyArg.take r : Option ({ctx.lean_type(t)} × List String))")
        args = " ".join(f"a{i}" for i in range(len(info.params)))
        lines.append(f"  | \"{info.lean}\" :: r => do")
        lines.extend(takes)
        lines.append("    if r ≠ [] then none")
        lines.append(f"    some (Py.PyOut.out ({info.lean} {args}))")
    lines.append("  | _ => none")
    return "\n".join(inst) + ("\n\n" if inst else "") + "\n".join(lines) + "\n"


def load_targets() -> Dict[str, Any]:
    sys.path.insert(0, str(VERIF))
    import importlib

    mod = importlib.import_module("harness.gentie_targets")
    importlib.reload(mod)
    return mod.TARGETS


def write_if_changed(path: Path, text: str) -> bool:
    if path.exists() and path.read_text() == text:
        return False
    path.parent.mkdir(parents=True, exist_ok=True)
    tmp = path.with_suffix(f".tmp{os.getpid()}")
    tmp.write_text(text)
    os.replace(tmp, path)
    return True


def regenerate(pid: str, targets: Optional[Dict[str, Any]] = None) -> Dict[str, Any]:
    targets = targets or load_targets()
    text, infos = generate(pid, targets)
    path = GEN_DIR / f"{pid}.lean"
    changed = write_if_changed(path, text)
    return {
        "path": str(path),
        "changed": changed,
        "repo": str(repo_dir()),
        "functions": [{"py": i.py, "module": i.entry["module"], "lean": f"OdcGeo.Gen.{pid}.{i.lean}", "src_sha256": i.src_hash,
                       "raises": i.res, "error": i.error} for i in infos if not i.absent],
        "failed": [i.py for i in infos if i.error],
    }


def main() -> int:
    args = [a for a in sys.argv[1:] if not a.startswith("--")]
    check = "--check" in sys.argv
    targets = load_targets()
    pids = [a.upper() for a in args] or sorted(targets)
    rc = 0
    for pid in pids:
        if pid not in targets:
            print(f"{pid}: no targets", file=sys.stderr)
            rc = 2
            continue
        if check:
            text, infos = generate(pid, targets)
            path = GEN_DIR / f"{pid}.lean"
            same = path.exists() and path.read_text() == text
            print(f"{pid}: {'up to date' if same else 'DIFFERS'}")
            rc = rc or (0 if same else 1)
            continue
        r = regenerate(pid, targets)
        print(f"{pid}: {len(r['functions'])} functions, {'rewritten' if r['changed'] else 'unchanged'} {r['path']}")
        for f in r["functions"]:
            if f["error"]:
                print(f"  UNTRANSLATABLE {f['error']}", file=sys.stderr)
                rc = 1
    return rc


if __name__ == "__main__":
    sys.exit(main())
