#!/venv/bin/python
"""
Single entry point:  check.py <Cxx> [--tier quick|thorough] [--replay <file>]

exit 0  property held on everything explored (KNOWN-FINDING lines may be printed)
exit 1  VIOLATION line(s) printed
exit 2  infrastructure problem / timeout (never a verdict)
"""
import argparse
import importlib
import json
import os
import sys
import traceback
import warnings
from pathlib import Path

warnings.filterwarnings("ignore")
sys.path.insert(0, str(Path(__file__).resolve().parent))
# development aid: run against a scratch worktree of /repo instead of the editable install
if os.environ.get("ODC_GEO_REPO"):
    sys.path.insert(0, os.environ["ODC_GEO_REPO"])

from harness.common import Run  # noqa: E402


def _gentie_hook(R) -> None:
    """source tie (harness/gentie.py): regenerate Lean definitions from the Python source and check the tie
    theorems; a no-op for properties not listed in gentie.GENTIE_READY"""
    try:
        from harness import gentie
    except Exception:  # pylint: disable=broad-except
        return
    gentie.hook(R)


def main() -> int:
    ap = argparse.ArgumentParser()
    ap.add_argument("prop")
    ap.add_argument("--tier", default=os.environ.get("VERIF_TIER", "quick"), choices=["quick", "thorough"])
    ap.add_argument("--replay", default=None)
    args = ap.parse_args()
    prop = args.prop.upper()
    seed = int(os.environ.get("VERIF_SEED", "0") or 0)
    os.environ.setdefault("ODC_GEO_VERIF", "1")

    mod = importlib.import_module(f"harness.{prop.lower()}")
    R = Run(prop, args.tier, seed)

    if args.replay:
        rec = json.loads(Path(args.replay).read_text())
        if str(rec.get("key", "")).startswith("source-tie:"):  # replay written by the source tie (harness/gentie.py)
            from harness import gentie

            return gentie.replay(R, rec)
        rc = mod.replay(R, rec)
        return rc

    try:
        _gentie_hook(R)
        R.proof_stage()
    except Exception:  # pylint: disable=broad-except
        traceback.print_exc()
        print(f"INFRA-ERROR property={prop}", file=sys.stderr)
        return 2
    try:
        mod.run(R)
    except Exception:  # pylint: disable=broad-except
        # the real code did something the harness does not expect (or the harness is wrong):
        # treated like a broken correspondence, never silently as success
        R.harness_exc = traceback.format_exc()[-3000:]
        traceback.print_exc()
    try:
        return R.finish()
    except Exception:  # pylint: disable=broad-except
        traceback.print_exc()
        print(f"INFRA-ERROR property={prop}", file=sys.stderr)
        return 2


if __name__ == "__main__":
    sys.exit(main())
